"""Shared machinery of the pyunicorn verification harness.

Layers (DESIGN.md section 0): T = theorems compile (incl. those over
regenerated coq/Gen files), C = model == implementation on generated cases
(evaluated inside Coq with vm_compute), P = the property's own relation
evaluated directly on the implementation (failing-input search).
"""
import fcntl
import hashlib
import importlib.abc
import importlib.util
import json
import os
import random
import re
import shutil
import subprocess
import sys
import time
from fractions import Fraction

VERIF = os.path.dirname(os.path.dirname(os.path.abspath(__file__)))
REPO = os.environ.get("VERIF_REPO", "/repo")
COQ = os.path.join(VERIF, "coq")
CACHE = os.path.join(VERIF, ".cache")
PY = "/venv/bin/python"
PKGS = ["climate", "core", "funcnet", "timeseries"]
SO_NAME = "numerics.cpython-312-x86_64-linux-gnu.so"

GLOBAL_TRUSTED = [
    "Coq 8.16.1 kernel (coqc full .vo build; coqchk in the thorough tier); "
    "vm_compute used, native_compute not used",
    "hand-written Gallina models under coq/Model (tied to the code only by "
    "the correspondence layer and by the regenerated coq/Gen fact files)",
    "translators under /verif/translate (Python ast / regex readers, "
    "fail-closed) and their reading of Python/Cython/C semantics",
    "Python harness: case generators, float->rational conversion "
    "(float.as_integer_ratio), canonicalisation, tolerances",
    "scratch build of the Cython extensions = setup.py's own recipe",
    "numpy / scipy / igraph / CPython / Cython code generator / gcc",
]

FORBIDDEN = re.compile(
    r"\b(Admitted|admit|Axiom|Axioms|Parameter|Parameters|Conjecture|"
    r"Admit Obligations|bypass_check|Unset Guard Checking|"
    r"Unset Positivity Checking|Unset Universe Checking)\b")


# --------------------------------------------------------------------------
# extension build cache: .so files are always built from the CURRENT sources
# --------------------------------------------------------------------------

def _ext_sources():
    out = [os.path.join(REPO, "setup.py")]
    for pkg in PKGS:
        d = os.path.join(REPO, "src", "pyunicorn", pkg, "_ext")
        for fn in sorted(os.listdir(d)):
            if fn == "numerics.c" or fn.endswith(".so"):
                continue
            if fn.endswith((".pyx", ".pxd", ".c", ".py", ".h")):
                out.append(os.path.join(d, fn))
    return out


def ext_hash():
    h = hashlib.sha256()
    for p in _ext_sources():
        h.update(os.path.relpath(p, REPO).encode())
        with open(p, "rb") as f:
            h.update(f.read())
    return h.hexdigest()[:20]


def ensure_ext(flavor="plain", log=None):
    """Return {module name: .so path} built from the current working tree."""
    key = ext_hash() + "-" + flavor
    dest = os.path.join(CACHE, "ext", key)
    os.makedirs(os.path.join(CACHE, "ext"), exist_ok=True)
    lock = open(os.path.join(CACHE, "ext", ".lock"), "w")
    fcntl.flock(lock, fcntl.LOCK_EX)
    try:
        if not os.path.exists(os.path.join(dest, "ok")):
            _build_ext(dest, flavor, log)
            # keep the cache small: newest 4 builds
            dirs = [os.path.join(CACHE, "ext", d)
                    for d in os.listdir(os.path.join(CACHE, "ext"))
                    if not d.startswith(".")]
            dirs.sort(key=os.path.getmtime, reverse=True)
            for d in dirs[4:]:
                shutil.rmtree(d, ignore_errors=True)
    finally:
        fcntl.flock(lock, fcntl.LOCK_UN)
        lock.close()
    return {f"pyunicorn.{pkg}._ext.numerics":
            os.path.join(dest, pkg, SO_NAME) for pkg in PKGS}


def _build_ext(dest, flavor, log):
    scratch = f"/var/tmp/pyunicorn-verif.{os.getpid()}"
    shutil.rmtree(scratch, ignore_errors=True)
    try:
        subprocess.run(
            ["rsync", "-a", "--exclude=.git", "--exclude=*.so",
             "--exclude=numerics.c", "--exclude=build", "--exclude=docs",
             "--exclude=__pycache__", "--exclude=tests",
             REPO + "/", scratch + "/"], check=True)
        env = dict(os.environ)
        if flavor == "asan":
            env["CFLAGS"] = ("-fsanitize=address,undefined "
                             "-fno-omit-frame-pointer -g -O1")
            env["LDFLAGS"] = "-fsanitize=address,undefined"
        r = subprocess.run(
            [PY, "setup.py", "build_ext", "--inplace", "-j8"], cwd=scratch,
            env=env, stdout=subprocess.PIPE, stderr=subprocess.STDOUT,
            text=True, timeout=1200)
        if r.returncode != 0:
            raise BuildError("extension build failed:\n" + r.stdout[-4000:])
        shutil.rmtree(dest, ignore_errors=True)
        for pkg in PKGS:
            os.makedirs(os.path.join(dest, pkg))
            shutil.copy(
                os.path.join(scratch, "src", "pyunicorn", pkg, "_ext",
                             SO_NAME),
                os.path.join(dest, pkg, SO_NAME))
        with open(os.path.join(dest, "ok"), "w") as f:
            f.write(time.strftime("%F %T"))
    finally:
        shutil.rmtree(scratch, ignore_errors=True)


class BuildError(Exception):
    pass


class _ExtFinder(importlib.abc.MetaPathFinder):
    def __init__(self, mapping):
        self.mapping = mapping

    def find_spec(self, name, path, target=None):
        p = self.mapping.get(name)
        if p is None:
            return None
        return importlib.util.spec_from_file_location(name, p)


def activate_impl(flavor="plain"):
    """Make `import pyunicorn` use /repo/src + freshly built extensions."""
    mapping = ensure_ext(flavor)
    sys.meta_path.insert(0, _ExtFinder(mapping))
    src = os.path.join(REPO, "src")
    sys.path[:] = [p for p in sys.path if p != src]
    sys.path.insert(0, src)
    for m in list(sys.modules):
        if m == "pyunicorn" or m.startswith("pyunicorn."):
            del sys.modules[m]
    return mapping


# --------------------------------------------------------------------------
# Coq
# --------------------------------------------------------------------------

def coq_lock():
    os.makedirs(CACHE, exist_ok=True)
    f = open(os.path.join(CACHE, "coq.lock"), "w")
    fcntl.flock(f, fcntl.LOCK_EX)
    return f


def write_if_changed(path, text):
    try:
        with open(path) as f:
            if f.read() == text:
                return False
    except FileNotFoundError:
        pass
    os.makedirs(os.path.dirname(path), exist_ok=True)
    with open(path, "w") as f:
        f.write(text)
    return True


def coq_makefile():
    """(Re)create coq/_CoqProject listing and Makefile from files on disk."""
    files = []
    for sub in ["Base", "Model", "Gen", "Proofs", "Props"]:
        d = os.path.join(COQ, sub)
        for fn in sorted(os.listdir(d)):
            if fn.endswith(".v"):
                files.append(f"{sub}/{fn}")
    text = "-Q . PV\n-arg -w -arg -all\n" + "\n".join(files) + "\n"
    changed = write_if_changed(os.path.join(COQ, "_CoqProject"), text)
    if changed or not os.path.exists(os.path.join(COQ, "Makefile")):
        subprocess.run(["coq_makefile", "-f", "_CoqProject", "-o", "Makefile"],
                       cwd=COQ, check=True, stdout=subprocess.DEVNULL)


def coq_make(targets, timeout=1500, jobs=8):
    coq_makefile()
    r = subprocess.run(
        ["timeout", str(timeout), "make", f"-j{jobs}"] + targets, cwd=COQ,
        stdout=subprocess.PIPE, stderr=subprocess.STDOUT, text=True)
    return r.returncode == 0, r.stdout


def coqc(path, timeout=600, cwd=None):
    r = subprocess.run(
        ["timeout", str(timeout), "coqc", "-Q", COQ, "PV", "-w", "-all", path],
        cwd=cwd or os.path.dirname(path), stdout=subprocess.PIPE,
        stderr=subprocess.STDOUT, text=True)
    return r.returncode == 0, r.stdout


def grep_forbidden():
    bad = []
    for root, _, files in os.walk(COQ):
        for fn in files:
            if not fn.endswith(".v"):
                continue
            p = os.path.join(root, fn)
            with open(p) as f:
                txt = re.sub(r"\(\*.*?\*\)", "", f.read(), flags=re.S)
            for m in FORBIDDEN.finditer(txt):
                bad.append(f"{os.path.relpath(p, COQ)}: {m.group(0)}")
    return bad


def parse_assumptions(out):
    """Split coqc output of a Props file into per-theorem assumption blocks."""
    blocks = []
    cur = None
    for line in out.splitlines():
        if line.startswith("Closed under the global context"):
            blocks.append([])
            cur = None
        elif line.startswith("Axioms:"):
            cur = []
            blocks.append(cur)
        elif cur is not None:
            m = re.match(r"^([A-Za-z_][\w.']*)\s*:", line)
            if m:
                cur.append(m.group(1))
            elif not line.startswith(" ") and line.strip():
                cur = None
    return blocks


ALLOWED_AXIOMS = {
    # standard-library axioms only (named in DESIGN.md trusted base)
    "ClassicalDedekindReals.sig_forall_dec",
    "ClassicalDedekindReals.sig_not_dec",
    "FunctionalExtensionality.functional_extensionality_dep",
    "functional_extensionality_dep",
    "sig_forall_dec", "sig_not_dec",
    "Classical_Prop.classic", "classic",
}


# --------------------------------------------------------------------------
# rational / Coq literal helpers
# --------------------------------------------------------------------------

def qlit(x):
    """Coq Q literal (exact) for an int / Fraction / float."""
    if isinstance(x, bool):
        x = int(x)
    if isinstance(x, float):
        fr = Fraction(*x.as_integer_ratio())
    else:
        fr = Fraction(x)
    n, d = fr.numerator, fr.denominator
    return f"({n}#{d})%Q" if n >= 0 else f"(({n})#{d})%Q"


def zlit(n):
    n = int(n)
    return str(n) if n >= 0 else f"({n})"


def blit(b):
    return "true" if b else "false"


def listlit(items):
    return "[" + "; ".join(items) + "]"


def parse_nat_list(out):
    """Parse the (possibly wrapped) result of `Eval vm_compute in (l : list
    nat)`; returns None when the output has no such result."""
    m = re.search(r"=\s*(\[.*?\]|nil)\s*:\s*list nat", out, flags=re.S)
    if not m:
        return None
    body = m.group(1)
    if body == "nil":
        return []
    return [int(t) for t in re.findall(r"\d+", body)]


# --------------------------------------------------------------------------
# known findings
# --------------------------------------------------------------------------

def load_findings(prop):
    path = os.path.join(VERIF, "known_findings.jsonl")
    out = []
    if os.path.exists(path):
        with open(path) as f:
            for line in f:
                line = line.strip()
                if not line or line.startswith("#"):
                    continue
                e = json.loads(line)
                if e.get("property") == prop and e.get("status") == "finding":
                    out.append(e)
    return out


def finding_matches(entry, viol):
    if entry.get("where") != viol["where"]:
        return False
    tags = viol.get("tags", {})
    for k, v in entry.get("match", {}).items():
        if tags.get(k) != v:
            return False
    return True


# --------------------------------------------------------------------------
# context of one check run
# --------------------------------------------------------------------------

class Ctx:
    def __init__(self, prop, tier, seed):
        self.prop = prop
        self.tier = tier
        self.seed = seed
        self.rng = random.Random(f"{prop}-{seed}")
        self.t0 = time.time()
        self.scale = 1               # 10 in the extended search
        self.workdir = os.path.join(VERIF, ".work", f"{prop}.{os.getpid()}")
        shutil.rmtree(self.workdir, ignore_errors=True)
        os.makedirs(self.workdir)
        self.t_broken = []           # names of theorems / obligations
        self.c_broken = []           # correspondence mismatches
        self.violations = []         # from P
        self.theorem_names = []
        self.assumption_blocks = []
        self.obligations = 0
        self.discharged = 0
        self.axioms = set()
        self.evaluations = 0
        self.nontrivial = set()
        self.samples = []
        self.traces = 0
        self.stats = {}
        self.modelled = []
        self.assumptions = []
        self.refuted = []
        self.notes = []
        self.extra_trusted = []
        self.checker_cmds = []

    # ---- T ---------------------------------------------------------------
    def generate(self, translators):
        """Run translators -> coq/Gen/<Name>.v (fail-closed)."""
        sys.path.insert(0, os.path.join(VERIF, "translate"))
        for modname, outname in translators:
            try:
                mod = importlib.import_module(modname)
                importlib.reload(mod)
                text = mod.generate(REPO)
            except Exception as e:      # fail closed: poison the Gen file
                self.t_broken.append(
                    f"translator {modname} stopped: {type(e).__name__}: {e}")
                text = (f"(* translator {modname} failed closed *)\n"
                        "Definition translator_failed : True := I.\n"
                        "Goal False. Proof. exact translator_failed. Qed.\n")
            write_if_changed(os.path.join(COQ, "Gen", outname + ".v"), text)

    def theorems(self, props_file=None, timeout=1500):
        """Build the dependency cone and (always) re-check Props/<id>.v."""
        props_file = props_file or f"Props/{self.prop}.v"
        lock = coq_lock()
        try:
            bad = grep_forbidden()
            if bad:
                self.t_broken.append("forbidden construct: " + "; ".join(bad))
            src = os.path.join(COQ, props_file)
            with open(src) as f:
                txt = re.sub(r"\(\*.*?\*\)", "", f.read(), flags=re.S)
            names = re.findall(
                r"^\s*(?:Theorem|Lemma|Corollary|Example)\s+([\w']+)", txt,
                flags=re.M)
            self.theorem_names += names
            self.obligations += len(names)
            deps = self._deps(props_file)
            ok, out = coq_make(deps, timeout=timeout) if deps else (True, "")
            if not ok:
                self.t_broken.append(
                    "dependency build failed: " + _first_error(out))
                self.log("coq_make", out)
                return False
            vo = src[:-2] + ".vo"
            if os.path.exists(vo):
                os.remove(vo)
            ok, out = coqc(src, timeout=timeout, cwd=COQ)
            self.checker_cmds.append(
                f"make -C coq {' '.join(deps)} && coqc -Q coq PV {props_file}")
            self.log("coqc_props", out)
            if not ok:
                self.t_broken.append(
                    f"{props_file} does not compile: " + _first_error(out))
                return False
            blocks = parse_assumptions(out)
            self.assumption_blocks += blocks
            self.discharged += min(len(blocks), len(names))
            if len(blocks) < len(names):
                self.t_broken.append(
                    f"{props_file}: {len(names)} theorems but only "
                    f"{len(blocks)} Print Assumptions blocks")
            for b in blocks:
                for a in b:
                    self.axioms.add(a)
                    if a not in ALLOWED_AXIOMS and \
                            a.split(".")[-1] not in ALLOWED_AXIOMS:
                        self.t_broken.append(f"unexpected axiom {a}")
            return not self.t_broken
        finally:
            fcntl.flock(lock, fcntl.LOCK_UN)
            lock.close()

    def _deps(self, props_file):
        """.vo targets the Props file needs (its `Require` lines)."""
        with open(os.path.join(COQ, props_file)) as f:
            txt = f.read()
        return self._deps_text(txt)

    def _deps_text(self, txt):
        deps = []
        for m in re.finditer(r"PV\.(\w+)\.(\w+)", txt):
            t = f"{m.group(1)}/{m.group(2)}.vo"
            if t not in deps and os.path.exists(
                    os.path.join(COQ, t[:-1])):
                deps.append(t)
        for m in re.finditer(
                r"From PV\.?(\w*) Require (?:Import|Export) ([^.]*)\.", txt):
            sub = m.group(1)
            for name in m.group(2).split():
                cand = [f"{sub}/{name}.vo"] if sub else [
                    f"{s}/{name}.vo" for s in
                    ["Base", "Model", "Gen", "Proofs"]]
                for t in cand:
                    if os.path.exists(os.path.join(COQ, t[:-1])) \
                            and t not in deps:
                        deps.append(t)
        return deps

    def coqchk(self, props_file=None, timeout=1200):
        """Thorough tier: independent re-check + axiom listing."""
        props_file = props_file or f"Props/{self.prop}.v"
        mod = "PV." + props_file[:-2].replace("/", ".")
        r = subprocess.run(
            ["timeout", str(timeout), "coqchk", "-silent", "-o", "-Q", COQ,
             "PV", mod], cwd=COQ, stdout=subprocess.PIPE,
            stderr=subprocess.STDOUT, text=True)
        self.log("coqchk", r.stdout)
        self.checker_cmds.append(f"coqchk -silent -o -Q coq PV {mod}")
        if r.returncode != 0:
            self.t_broken.append("coqchk failed: " + r.stdout[-300:])
            return False
        m = re.search(r"\* Axioms:\s*(.*?)(\n\s*\*|\Z)", r.stdout, flags=re.S)
        ax = m.group(1).strip() if m else ""
        self.stats["coqchk_axioms"] = ax
        return True

    # ---- C ---------------------------------------------------------------
    def coq_eval(self, name, text, timeout=600):
        path = os.path.join(self.workdir, name + ".v")
        with open(path, "w") as f:
            f.write(text)
        ok, out = coqc(path, timeout=timeout)
        return ok, out

    def coq_failing(self, name, header, case_terms, check_fn, chunk=250,
                    timeout=900, case_type=None):
        """Evaluate `check_fn : case -> bool` on every term inside Coq;
        return indices (into case_terms) where it is false; None on error."""
        # the libraries the header imports must be current (a model file may
        # have changed since the last full build)
        hdeps = self._deps_text(header)
        if hdeps:
            lock = coq_lock()
            try:
                ok, out = coq_make(hdeps, timeout=timeout)
            finally:
                fcntl.flock(lock, fcntl.LOCK_UN)
                lock.close()
            if not ok:
                self.c_broken.append("model build failed: "
                                     + _first_error(out))
                self.log("coq_make_header", out)
                return None
        jobs = []
        for k in range(0, len(case_terms), chunk):
            part = case_terms[k:k + chunk]
            body = header + "\n"
            ann = f" : list ({case_type})" if case_type else ""
            body += (f"Definition cases{ann} := [\n  " + ";\n  ".join(part)
                     + "\n].\n")
            body += ("Definition failing := map fst (filter (fun p => negb "
                     f"({check_fn} (snd p))) (combine (seq 0 (length cases))"
                     " cases)).\n")
            body += "Eval vm_compute in failing.\n"
            path = os.path.join(self.workdir, f"{name}_{k}.v")
            with open(path, "w") as f:
                f.write(body)
            jobs.append((k, path))
        procs = []
        failing = []
        err = None
        maxpar = 8
        idx = 0
        running = []
        while idx < len(jobs) or running:
            while idx < len(jobs) and len(running) < maxpar:
                k, path = jobs[idx]
                idx += 1
                p = subprocess.Popen(
                    ["timeout", str(timeout), "coqc", "-Q", COQ, "PV", "-w",
                     "-all", path], cwd=self.workdir, stdout=subprocess.PIPE,
                    stderr=subprocess.STDOUT, text=True)
                running.append((k, path, p))
            k, path, p = running.pop(0)
            out, _ = p.communicate()
            res = parse_nat_list(out) if p.returncode == 0 else None
            if res is None:
                err = f"{os.path.basename(path)}: " + _first_error(out)
                self.log("coq_cases_error", out)
            else:
                failing += [k + i for i in res]
        if err is not None:
            self.c_broken.append("model evaluation failed: " + err)
            return None
        return failing

    def corr(self, where, case, detail):
        self.c_broken.append({"where": where, "case": case, "detail": detail})

    # ---- P ---------------------------------------------------------------
    def violation(self, where, what, case, tags=None):
        self.violations.append(
            {"where": where, "what": what, "case": case, "tags": tags or {}})

    def count(self, case_key, nontrivial=True, n=1):
        self.evaluations += n
        if nontrivial:
            self.nontrivial.add(
                hashlib.md5(json.dumps(case_key, sort_keys=True,
                                       default=str).encode()).hexdigest())

    def sample(self, case):
        if len(self.samples) < 3:
            self.samples.append(case)

    def stat(self, key, n=1):
        self.stats[key] = self.stats.get(key, 0) + n

    def log(self, name, text):
        d = os.path.join(VERIF, ".work", "logs")
        os.makedirs(d, exist_ok=True)
        with open(os.path.join(d, f"{self.prop}.{name}.log"), "w") as f:
            f.write(text)

    def n(self, quick, thorough):
        base = quick if self.tier == "quick" else thorough
        return base * self.scale

    # ---- verdict -----------------------------------------------------------
    def finish(self, level="proof"):
        findings = load_findings(self.prop)
        known, unlisted = {}, []
        for v in self.violations:
            hit = None
            for e in findings:
                if finding_matches(e, v):
                    hit = e
                    break
            if hit is not None:
                known.setdefault(hit["id"], (hit, 0))
                known[hit["id"]] = (hit, known[hit["id"]][1] + 1)
            else:
                unlisted.append(v)
        lines = []
        for fid, (e, cnt) in sorted(known.items()):
            lines.append(f"KNOWN-FINDING: property={self.prop} {e['what']} "
                         f"[{fid}; reproduced on {cnt} case(s)]")
        rc = 0
        os.makedirs(os.path.join(VERIF, "replays"), exist_ok=True)
        if unlisted:
            rc = 1
            seen = set()
            for v in unlisted:
                if v["where"] in seen:
                    continue
                seen.add(v["where"])
                path = os.path.join(
                    VERIF, "replays",
                    f"{self.prop}-{_slug(v['where'])}-{self.seed}.json")
                with open(path, "w") as f:
                    json.dump({"property": self.prop, "where": v["where"],
                               "what": v["what"], "tags": v["tags"],
                               "case": v["case"],
                               "t_broken": self.t_broken,
                               "c_broken": self.c_broken[:5]}, f, indent=1,
                              default=str)
                lines.append(f"VIOLATION property={self.prop} replay={path}")
        elif self.t_broken or self.c_broken:
            rc = 1
            path = os.path.join(
                VERIF, "replays", f"{self.prop}-unproved-{self.seed}.json")
            with open(path, "w") as f:
                json.dump({"property": self.prop,
                           "no_longer_checks": {
                               "theorems_or_obligations": self.t_broken,
                               "correspondence": self.c_broken[:20]},
                           "searched": {"evaluations": self.evaluations,
                                        "scale": self.scale}},
                          f, indent=1, default=str)
            lines.append(f"VIOLATION property={self.prop} replay={path} "
                         "no-failing-input-found")
        self.write_evidence(level, rc, [k for k in known])
        for ln in lines:
            print(ln)
        print(f"[{self.prop}] tier={self.tier} seed={self.seed} "
              f"T={'ok' if not self.t_broken else 'BROKEN'} "
              f"C={'ok' if not self.c_broken else 'BROKEN'} "
              f"P={len(unlisted)} unlisted / {len(known)} known "
              f"evaluations={self.evaluations} "
              f"wall={time.time() - self.t0:.0f}s exit={rc}")
        if self.t_broken:
            print("  T:", self.t_broken[:3])
        if self.c_broken:
            print("  C:", json.dumps(self.c_broken[:2], default=str)[:1500])
        shutil.rmtree(self.workdir, ignore_errors=True)
        return rc

    def write_evidence(self, level, rc, known_ids):
        trusted = list(GLOBAL_TRUSTED) + self.extra_trusted
        if self.axioms:
            trusted.append("axioms reported by Print Assumptions: "
                           + ", ".join(sorted(self.axioms)))
        else:
            trusted.append("Print Assumptions: every property theorem is "
                           "closed under the global context (no axioms)")
        ev = {
            "property_id": self.prop,
            "tier": self.tier,
            "seed": self.seed,
            "level": level,
            "coverage": {
                "obligations": self.obligations,
                "discharged": self.discharged,
                "checker_cmd": " ; ".join(self.checker_cmds) or "(none run)",
                "trusted_base": trusted,
                "theorems": self.theorem_names,
                "evaluations": self.evaluations,
                "distinct_nontrivial": len(self.nontrivial),
                "rule": self.stats.pop("rule", ""),
                "samples": self.samples,
                "traces_validated_against_impl": self.traces,
                "modelled_functions": self.modelled,
                "refuted_theorems": self.refuted,
                "distribution": self.stats,
                "known_findings_reproduced": known_ids,
                "theorems_broken": self.t_broken,
                "correspondence_broken": len(self.c_broken),
            },
            "assumptions": self.assumptions,
            "wall_s": round(time.time() - self.t0, 2),
            "violations": 0 if rc == 0 else 1,
        }
        if self.discharged == 0 or self.obligations == 0:
            # nothing was proved in this run (T broke): do not present the
            # proof-level keys; the exploration counts remain
            cov = ev["coverage"]
            cov["obligations_stated"] = cov.pop("obligations")
            cov["discharged_none"] = cov.pop("discharged")
        os.makedirs(os.path.join(VERIF, "evidence"), exist_ok=True)
        with open(os.path.join(VERIF, "evidence", self.prop + ".json"),
                  "w") as f:
            json.dump(ev, f, indent=1, default=str)


def _slug(s):
    return re.sub(r"[^A-Za-z0-9]+", "_", s)[:60]


def _first_error(out):
    m = re.search(r"(File [^\n]*\n)?Error:.*", out, flags=re.S)
    txt = m.group(0) if m else out[-600:]
    return " ".join(txt.split())[:600]


def run_forked(fn, timeout=10):
    """Run fn() in a forked child (compiled kernels that loop forever cannot
    be interrupted by signals).  Returns ("ok", value) | ("timeout", None) |
    ("error", message)."""
    import pickle
    import select
    import signal
    r, w = os.pipe()
    pid = os.fork()
    if pid == 0:
        try:
            os.close(r)
            try:
                out = ("ok", fn())
            except BaseException as e:       # noqa
                out = ("error", f"{type(e).__name__}: {e}")
            with os.fdopen(w, "wb") as f:
                pickle.dump(out, f)
        finally:
            os._exit(0)
    os.close(w)
    try:
        ready, _, _ = select.select([r], [], [], timeout)
        if not ready:
            os.kill(pid, signal.SIGKILL)
            os.waitpid(pid, 0)
            return ("timeout", None)
        with os.fdopen(r, "rb") as f:
            r = None
            data = f.read()
        os.waitpid(pid, 0)
        return pickle.loads(data) if data else ("error", "child died")
    finally:
        if r is not None:
            os.close(r)
