"""Runs inside a python process started with the sanitizer runtime preloaded
and the sanitizer build of the extensions: drives the public API over a grid
of shapes and prints one BEGIN / END line per case.  A case that dies with a
sanitizer report (or a crash) is the last BEGIN without END."""
import itertools
import os
import random
import sys
import warnings

sys.path.insert(0, os.path.dirname(__file__))


def cases(seed, scale):
    import numpy as np
    rng = random.Random(seed)
    g = np.random.default_rng(seed)
    out = []

    def add(label, fn):
        out.append((label, fn))

    sizes = [0, 1, 2, 3, 5]
    # ---- core ---------------------------------------------------------------
    from pyunicorn.core.network import Network
    from pyunicorn.core.geo_grid import GeoGrid
    from pyunicorn.core.grid import Grid
    from pyunicorn.core.geo_network import GeoNetwork
    from pyunicorn.core.resistive_network import ResNetwork
    from pyunicorn.core.interacting_networks import InteractingNetworks
    for n in [1, 2, 3, 4, 7]:
        for p in (0.0, 0.5, 1.0):
            A = (g.random((n, n)) < p).astype(int)
            A = np.triu(A, 1)
            A = A + A.T

            def net(A=A):
                o = Network(adjacency=A, silence_level=3)
                for order in (3, 4, 5):
                    o.local_cliquishness(order)
                o.local_clustering()
                o.global_clustering()
                o.transitivity()
                o.nsi_local_clustering()
                o.newman_betweenness()
                o.nsi_newman_betweenness()
                o.nsi_betweenness()
                o.spreading()
                o.nsi_spreading()
                o.higher_order_transitivity(4)
                o.local_cliquishness(4)
                o.do_nsi_hamming_clustering() if n <= 4 and A.sum() else None
            add(f"core.Network measures n={n} p={p}", net)
    for n in sizes:
        lat = np.linspace(-90, 90, n) if n else np.array([])
        lon = np.linspace(-180, 180, n) if n else np.array([])
        add(f"core.GeoGrid.angular_distance n={n}",
            lambda lat=lat, lon=lon: GeoGrid(
                np.arange(2), lat, lon, silence_level=3).angular_distance())
        for d in (1, 2, 3):
            add(f"core.Grid.euclidean_distance n={n} d={d}",
                lambda n=n, d=d: Grid(np.arange(2), g.random((d, n)),
                                      silence_level=3).euclidean_distance())
    for n in (2, 3, 5):
        R = np.triu(g.integers(1, 5, (n, n)), 1).astype(float)
        R = R + R.T

        def res(R=R, n=n):
            o = ResNetwork(R, silence_level=3)
            for i in (-1, 0, n - 1, n, 10 * n):
                try:
                    o.vertex_current_flow_betweenness(i)
                except (IndexError, ValueError):
                    pass
            o.edge_current_flow_betweenness()
        add(f"core.ResNetwork current flow n={n}", res)
    for n in (3, 4, 6):
        A = np.triu((g.random((n, n)) < 0.6).astype(int), 1)
        A = A + A.T

        def inter(A=A, n=n):
            o = InteractingNetworks(A, silence_level=3)
            for l1, l2 in (([0], [1]), ([], [0, 1]), ([0, 1], []),
                           (list(range(n // 2)), list(range(n // 2, n))),
                           ([n - 1, 0], [1])):
                for m in ("cross_local_clustering", "cross_transitivity",
                          "nsi_cross_local_clustering", "cross_degree",
                          "cross_betweenness", "nsi_cross_transitivity"):
                    try:
                        getattr(o, m)(l1, l2)
                    except Exception:
                        pass
        add(f"core.InteractingNetworks cross measures n={n}", inter)
    #  (the geo-model rewiring kernels are not driven here: they do not
    #  return when no admissible move exists, see C17)
    # ---- climate ------------------------------------------------------------
    from pyunicorn.climate.climate_data import ClimateData
    from pyunicorn.climate.mutual_info import MutualInfoClimateNetwork
    from pyunicorn.climate.rainfall import RainfallClimateNetwork
    from pyunicorn.climate._ext.numerics import mutual_information, \
        spearman_corr
    from pyunicorn.core._ext.types import to_cy, FIELD, MASK
    for N, T in itertools.product((1, 2, 3, 7), (1, 2, 3, 5, 12)):
        for nb in (1, 2, 32):
            def mi(N=N, T=T, nb=nb):
                for kind in ("rand", "const", "nan"):
                    a = g.standard_normal((N, T)).astype(np.float32)
                    if kind == "const":
                        a[:] = 1.0
                    if kind == "nan":
                        a[0, 0] = np.nan
                    lo, hi = float(np.nanmin(a)), float(np.nanmax(a))
                    with np.errstate(all="ignore"):
                        sc = np.float64(1.0) / (hi - lo)
                    try:
                        mutual_information(to_cy(a, FIELD), T, N, nb, sc, lo)
                    except (ValueError, TypeError, OverflowError):
                        pass
            add(f"climate.mutual_information N={N} T={T} bins={nb}", mi)

        def sp(N=N, T=T):
            a = g.standard_normal((N, T))
            mask = g.random((N, T)) < 0.7
            ranks = a.argsort(axis=1).argsort(axis=1) + 1.0
            spearman_corr(N, T, to_cy(mask, MASK), to_cy(ranks, FIELD))
        add(f"climate.spearman_corr m={N} tmax={T}", sp)
    for n, T in ((3, 24), (7, 12), (2, 36)):
        def clim(n=n, T=T):
            grid = GeoGrid(np.arange(T), np.linspace(-60, 60, n),
                           np.linspace(-100, 100, n), silence_level=3)
            obs = np.abs(g.standard_normal((T, n)))
            d = ClimateData(obs, grid, time_cycle=12, silence_level=3)
            mi = MutualInfoClimateNetwork(d, threshold=0.1, silence_level=3)
            for nb in (-1, 0, 1, 5):
                try:
                    mi._cython_calculate_mutual_information(
                        np.array(d.anomaly()), n_bins=nb)
                except ValueError:
                    pass
            RainfallClimateNetwork(d, threshold=0.1, silence_level=3)
        add(f"climate networks n={n} T={T}", clim)
    # ---- funcnet ------------------------------------------------------------
    from pyunicorn.funcnet import CouplingAnalysis
    for T, N in itertools.product((1, 2, 3, 6, 12), (1, 2, 5)):
        for tau in (0, 1, 2, 5, 12):
            def cc(T=T, N=N, tau=tau):
                c = CouplingAnalysis(g.standard_normal((T, N)),
                                     silence_level=3)
                for mode in ("max", "all"):
                    try:
                        c.cross_correlation(tau, mode)
                    except (ValueError, AssertionError, IndexError,
                            ZeroDivisionError):
                        pass
                for est in ("gauss", "binning", "knn"):
                    try:
                        c.mutual_information(min(tau, 2), estimator=est,
                                             knn=2, bins=2)
                    except Exception:
                        pass
                try:
                    c.information_transfer(min(tau, 1), estimator="knn",
                                           knn=2)
                except Exception:
                    pass
            add(f"funcnet.CouplingAnalysis T={T} N={N} tau_max={tau}", cc)
    # ---- timeseries ---------------------------------------------------------
    from pyunicorn.timeseries import RecurrencePlot, RecurrenceNetwork, \
        CrossRecurrencePlot, JointRecurrencePlot, VisibilityGraph
    from pyunicorn.timeseries.surrogates import Surrogates
    for T in (1, 2, 3, 5, 9):
        for dim, tau in ((1, 1), (2, 1), (3, 2)):
            if T - (dim - 1) * tau < 1:
                continue
            for metric in ("supremum", "euclidean", "manhattan"):
                def rp(T=T, dim=dim, tau=tau, metric=metric):
                    x = g.standard_normal(T)
                    kw = dict(dim=dim, tau=tau, metric=metric,
                              silence_level=3)
                    for extra in (dict(threshold=0.5),
                                  dict(recurrence_rate=0.3),
                                  dict(adaptive_neighborhood_size=1),
                                  dict(adaptive_neighborhood_size=T),
                                  dict(adaptive_neighborhood_size=3 * T + 2),
                                  dict(local_recurrence_rate=0.3)):
                        try:
                            o = RecurrencePlot(x, **kw, **extra)
                            o.rqa_summary()
                            o.diagline_dist()
                            o.vertline_dist()
                            o.white_vertline_dist()
                            o.twins(1)
                            o.twin_surrogates(1, 1)
                        except (ValueError, IndexError, ZeroDivisionError,
                                TypeError, AssertionError, KeyError):
                            pass
                    try:
                        RecurrenceNetwork(x, threshold=0.5, **kw) \
                            .transitivity()
                    except Exception:
                        pass
                add(f"timeseries.RecurrencePlot T={T} dim={dim} "
                    f"{metric}", rp)
    for Tx, Ty in ((1, 1), (2, 5), (5, 2), (6, 6)):
        def crp(Tx=Tx, Ty=Ty):
            x, y = g.standard_normal(Tx), g.standard_normal(Ty)
            for metric in ("supremum", "euclidean", "manhattan"):
                try:
                    CrossRecurrencePlot(x, y, threshold=0.5, metric=metric,
                                        silence_level=3).recurrence_rate()
                except Exception:
                    pass
                # multi-dimensional series with different numbers of
                # components: rejected, or computed inside the buffers
                for dx, dy in ((3, 2), (2, 3), (2, 2), (4, 1)):
                    xm = g.standard_normal((Tx + 1, dx))
                    ym = g.standard_normal((Ty + 1, dy))
                    try:
                        CrossRecurrencePlot(xm, ym, threshold=0.5,
                                            metric=metric, silence_level=3
                                            ).recurrence_rate()
                    except Exception:
                        pass
            try:
                JointRecurrencePlot(x, y, threshold=(0.5, 0.5),
                                    silence_level=3).recurrence_rate()
            except Exception:
                pass
        add(f"timeseries.Cross/JointRecurrencePlot Tx={Tx} Ty={Ty}", crp)
    for T in (1, 2, 3, 6, 40):
        def vg(T=T):
            x = g.standard_normal(T)
            tt = np.cumsum(1 + g.random(T + 2))
            for kw in ({}, {"horizontal": True},
                       {"missing_values": True},
                       {"timings": tt[:T]},
                       # timings shorter / longer than the series: an index
                       # error, or a clean result, never a read outside
                       {"timings": tt[:max(0, T - 1)]},
                       {"timings": tt[:T // 2]},
                       {"timings": tt[:T // 2], "horizontal": True},
                       {"timings": tt[:T // 2], "missing_values": True},
                       {"timings": tt}):
                try:
                    o = VisibilityGraph(x, silence_level=3, **kw)
                    o.visibility_relations()
                    o.retarded_local_clustering()
                    o.advanced_local_clustering()
                except (ValueError, IndexError, ZeroDivisionError):
                    pass
        add(f"timeseries.VisibilityGraph T={T}", vg)
    for N, T in itertools.product((1, 2, 4), (2, 3, 8)):
        def sur(N=N, T=T):
            X = g.standard_normal((N, T))
            s = Surrogates(X.copy(), silence_level=3)
            for shape in ((N, T), (N, max(1, T - 1)), (max(1, N - 1), T),
                          (N + 1, T + 3)):
                Y = g.standard_normal(shape)
                for nb in (-1, 0, 1, 2, 32):
                    try:
                        s.test_mutual_information(X.copy(), Y, n_bins=nb)
                    except ValueError:
                        pass
                try:
                    s.test_pearson_correlation(X.copy(), Y)
                except ValueError:
                    pass
            bad = X.copy()
            bad[0, 0] = np.nan
            for Z in (bad, np.full((N, T), 2.0)):
                try:
                    with np.errstate(all="ignore"):
                        s.test_mutual_information(Z, Z.copy(), n_bins=4)
                except ValueError:
                    pass
            for dim, delay in ((1, 1), (2, 1), (3, 3), (T + 1, 1)):
                try:
                    s.twin_surrogates(dim, delay, 0.5, min_dist=1)
                except (ValueError, IndexError):
                    pass
        add(f"timeseries.Surrogates N={N} T={T}", sur)
    from pyunicorn.eventseries import EventSeries
    for T, N in ((1, 2), (3, 2), (8, 3)):
        def ev(T=T, N=N):
            E = (g.random((T, N)) < 0.4).astype(int)
            try:
                o = EventSeries(E, taumax=2)
                o.event_series_analysis(method="ES")
                o.event_series_analysis(method="ECA")
            except (ValueError, IndexError, ZeroDivisionError, TypeError,
                    NotImplementedError):
                pass
        add(f"eventseries T={T} N={N}", ev)
    if scale <= 1:
        rng.shuffle(out)
        keep = max(40, len(out) // 3)
        # always keep one case per family
        fam = {}
        for lbl, fn in out:
            fam.setdefault(lbl.split(" ")[0], (lbl, fn))
        sel = list(fam.values()) + [c for c in out[:keep]
                                    if c not in fam.values()]
        out = sel
    return out


def main():
    seed, scale, start = int(sys.argv[1]), int(sys.argv[2]), int(sys.argv[3])
    import common
    common.activate_impl(sys.argv[4])
    warnings.simplefilter("ignore")
    cs = cases(seed, scale)
    print(f"TOTAL {len(cs)}", flush=True)
    devnull = open(os.devnull, "w")
    for k, (label, fn) in enumerate(cs):
        if k < start:
            continue
        print(f"BEGIN {k} {label}", flush=True)
        old = sys.stdout
        sys.stdout = devnull
        try:
            fn()
            res = "ok"
        except Exception as e:            # a Python exception is a rejection
            res = "exc:" + type(e).__name__
        finally:
            sys.stdout = old
        print(f"END {k} {res}", flush=True)


if __name__ == "__main__":
    main()
