"""C20 — compiled kernels never touch memory outside their arrays."""
import os
import re
import subprocess

import common

TRANSLATORS = [("c_kernel_access", "KernelAccess")]
MODELLED = [
    "setup.py compiler directives and every override in the four .pyx files",
    "every <T*> cnp.PyArray_DATA(..) hand-over: element widths of buffer, "
    "cast, extern declaration and C definition; declared layout",
    "index ranges of the index-addressed C routines (current-flow "
    "betweenness x2, Spearman correlation): 35 accesses",
    "pointer-walking C routines (surrogate test matrices, histogram mutual "
    "information x2): induction variables and pointer offsets by abstract "
    "interpretation, 28 accesses; bin numbers of the guarded symbolisation",
]
HERE = os.path.dirname(os.path.abspath(__file__))


def theorems(ctx):
    ctx.modelled += MODELLED
    ctx.generate(TRANSLATORS)
    ctx.theorems()
    if ctx.tier == "thorough":
        ctx.coqchk()


def _gcc_file(name):
    return subprocess.run(["gcc", "-print-file-name=" + name],
                          stdout=subprocess.PIPE, text=True).stdout.strip()


def drive(ctx, flavor, scale):
    """run the driver, restarting after every case that kills the process"""
    env = dict(os.environ)
    if flavor == "asan":
        env["LD_PRELOAD"] = _gcc_file("libasan.so") + " " + \
            _gcc_file("libstdc++.so")
        env["ASAN_OPTIONS"] = ("detect_leaks=0:allocator_may_return_null=1:"
                               "abort_on_error=0:exitcode=97")
        env["UBSAN_OPTIONS"] = "print_stacktrace=0:halt_on_error=0"
        env["PYTHONMALLOC"] = "malloc"
    env["PYTHONHASHSEED"] = "0"
    start, total, results = 0, None, {}
    guard = 0
    while True:
        guard += 1
        if guard > 400:
            break
        outf = os.path.join(ctx.workdir, f"driver_{guard}.out")
        errf = os.path.join(ctx.workdir, f"driver_{guard}.err")
        timed_out = False
        with open(outf, "w") as fo, open(errf, "w") as fe:
            try:
                rc = subprocess.run(
                    [common.PY, os.path.join(HERE, "c20_driver.py"),
                     str(ctx.seed), str(scale), str(start), flavor], env=env,
                    cwd="/var/tmp", stdout=fo, stderr=fe,
                    timeout=900).returncode
            except subprocess.TimeoutExpired:
                rc, timed_out = -9, True

        class P:
            pass
        p = P()
        p.stdout = open(outf).read()
        p.stderr = open(errf).read()[-20000:]
        p.returncode = rc
        cur = None
        for line in p.stdout.splitlines():
            m = re.match(r"TOTAL (\d+)", line)
            if m:
                total = int(m.group(1))
            m = re.match(r"BEGIN (\d+) (.*)", line)
            if m:
                cur = (int(m.group(1)), m.group(2))
            m = re.match(r"END (\d+) (\S+)", line)
            if m and cur and int(m.group(1)) == cur[0]:
                results[cur[0]] = (cur[1], m.group(2), None)
                cur = None
        ub = [ln for ln in p.stderr.splitlines() if "runtime error:" in ln]
        if cur is not None and timed_out:
            results[cur[0]] = (cur[1], "timeout", None)
            start = cur[0] + 1
            if total is not None and start >= total:
                break
            continue
        if cur is not None:
            # died inside a case
            summ = [ln for ln in p.stderr.splitlines()
                    if ln.startswith("SUMMARY:") or "ERROR: AddressSanitizer"
                    in ln or "Segmentation fault" in ln]
            results[cur[0]] = (cur[1], "died", "; ".join(summ[:3]) or
                               f"exit code {p.returncode}: "
                               + p.stderr.strip()[-300:])
            start = cur[0] + 1
            if total is not None and start >= total:
                break
            continue
        if ub:
            results.setdefault(-1, ("undefined behaviour sanitizer", "ub",
                                    "; ".join(sorted(set(
                                        re.sub(r"^.*?src/", "src/", u)
                                        for u in ub))[:5])))
        if total is None:
            ctx.c_broken.append("sanitizer driver did not start: "
                                + p.stderr.strip()[-400:])
        break
    return total, results


def correspondence(ctx):
    """the sanitizer build of the CURRENT tree, driven through the public
    API: every access the obligations call safe is executed under
    AddressSanitizer; a report inside a routine whose accesses were all
    proved in range is a defect of the translator"""
    flavor = "asan"
    try:
        common.ensure_ext("asan")
    except Exception as e:
        ctx.c_broken.append("sanitizer build failed: " + str(e)[-300:])
        flavor = "plain"
    scale = 2 if ctx.tier == "thorough" or ctx.scale > 1 else 1
    total, results = drive(ctx, flavor, scale)
    ctx._results = results
    ctx.stats["sanitizer"] = flavor
    ctx.stats["cases_total"] = total
    proved = ("_vertex_current_flow_betweenness_fast",
              "_edge_current_flow_betweenness_fast", "_spearman_corr")
    for k, (label, res, info) in sorted(results.items()):
        ctx.traces += 1
        ctx.stat("outcome:" + res.split(":")[0])
        ctx.stat("family:" + label.split(" ")[0])
        if res == "died" and info and any(f in info for f in proved):
            ctx.corr("sanitizer report inside a routine whose index "
                     "obligations are proved", {"case": label, "report": info},
                     None)


def search(ctx):
    ctx.stats["rule"] = (
        "AddressSanitizer + UBSan build of the four extensions of the "
        "current tree (cached by a hash of the _ext sources), run in child "
        "processes with the sanitizer runtime preloaded; the public API is "
        "driven over shape grids: networks n = 1..7 at densities 0 / 0.5 / "
        "1, grids n = 0..5 in 1..3 dimensions, resistive networks with node "
        "indices -1, 0, n-1, n, 10n, cross measures with empty and "
        "single-node lists, mutual information N x T in {1,2,3,7} x "
        "{1,2,3,5,12} with 1 / 2 / 32 bins on random, constant and NaN "
        "data, Spearman masks m x tmax incl. m > tmax, coupling analysis "
        "T x N incl. N > T with tau_max up to and beyond T, recurrence "
        "plots T = 1..9 x 3 embeddings x 3 metrics x 6 threshold modes "
        "(adaptive neighbourhood sizes 1, T, 3T+2), cross / joint plots, "
        "visibility graphs T = 1..6, surrogate tests with mismatching "
        "shapes, NaN and constant data, event series. Outcome per case: ok, "
        "Python exception (a rejection), or a sanitizer report / crash (the "
        "violation). Quick tier: one case per family plus a third of the "
        "grid; thorough: the whole grid.")
    results = getattr(ctx, "_results", None)
    if results is None or ctx.scale > 1:
        total, results = drive(ctx, "asan", 2)
    for k, (label, res, info) in sorted(results.items()):
        ctx.count({"case": label}, nontrivial=True)
        if res in ("died", "ub"):
            ctx.violation(label.split(" ")[0] if res == "died" else
                          "undefined arithmetic",
                          ("sanitizer report / crash: " if res == "died"
                           else "undefined behaviour: ") + (info or ""),
                          {"case": label, "report": info, "index": k},
                          {"kind": res})
    for k, (label, res, info) in sorted(results.items())[:3]:
        ctx.sample({"case": label, "outcome": res})


def replay(ctx, rep):
    search(ctx)
