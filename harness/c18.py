"""C18 — resistive-network quantities obey circuit laws."""
import heapq
import warnings
from fractions import Fraction

import numpy as np

from common import qlit, listlit

TRANSLATORS = [("c_resistive", "ResistiveK")]
MODELLED = [
    "core/_ext/src_numerics.c: _vertex/_edge_current_flow_betweenness_fast "
    "(regenerated as Gallina sums); numerics.pyx wrappers (buffer types)",
    "core/resistive_network.py: admittance Laplacian, effective_resistance, "
    "average / diameter with the hand-rolled store, update_resistances -> "
    "update_admittance -> update_R (state facts regenerated)",
]

HEADER = """From Coq Require Import QArith Qabs Qcanon List Bool Arith.
From PV.Base Require Import Sums.
From PV.Model Require Import Resistive.
Import ListNotations.
(* a history on one object: the resistances are tagged by an index into the
   list of exact pseudo-inverses supplied by the harness *)
Definition tag (k : nat) : mat := fun _ _ => qn k.
Definition pinv_tab (Rs : list (list (list Q))) : mat -> mat :=
  fun r => mfun (nth (Z.to_nat (Qnum (this (r 0%nat 0%nat)))) Rs []).
Inductive hop := HUpdate (k : nat) | HAverage | HDiameter | HEff (a b : nat).
Definition to_op (h : hop) : op :=
  match h with HUpdate k => Update (tag k) | HAverage => Average | HDiameter => Diameter
             | HEff a b => Eff a b end.
Fixpoint outs n pinv (s : state) (hs : list hop) : list Qc :=
  match hs with [] => [] | h :: r =>
    let '(s', o) := step n pinv true s (to_op h) in o :: outs n pinv s' r end.
Fixpoint all_close (a : list Qc) (b : list Q) : bool :=
  match a, b with [], [] => true
  | x :: a', y :: b' => close_to (1 # 1000000000) x y && all_close a' b' | _, _ => false end.
Definition check_history (c : nat * list (list (list Q)) * list hop * list Q) : bool :=
  let '(n, Rs, hs, expected) := c in
  all_close (outs n (pinv_tab Rs) (init (pinv_tab Rs) (tag 0)) hs) expected.
"""


def theorems(ctx):
    ctx.modelled += MODELLED
    ctx.generate(TRANSLATORS)
    ctx.theorems()
    if ctx.tier == "thorough":
        ctx.coqchk()


# --------------------------------------------------------------------------
# generators and exact references
# --------------------------------------------------------------------------

def connected_graph(rng, n, kind=None):
    kind = kind or rng.choice(["tree", "random", "cycle", "path", "complete",
                               "ladder"])
    A = np.zeros((n, n), int)
    if kind == "path" or n <= 2:
        for i in range(n - 1):
            A[i, i + 1] = A[i + 1, i] = 1
    elif kind == "cycle":
        for i in range(n):
            A[i, (i + 1) % n] = A[(i + 1) % n, i] = 1
    elif kind == "complete":
        A = 1 - np.eye(n, dtype=int)
    else:
        order = list(range(n))
        rng.shuffle(order)
        for k in range(1, n):
            p = order[rng.randrange(k)]
            A[order[k], p] = A[p, order[k]] = 1
        if kind != "tree":
            extra = rng.random() * (0.6 if kind == "random" else 0.25)
            for i in range(n):
                for j in range(i):
                    if rng.random() < extra:
                        A[i, j] = A[j, i] = 1
    return A, kind


def resistances(rng, A, unit=False):
    n = len(A)
    r = np.zeros((n, n))
    for i in range(n):
        for j in range(i):
            if A[i, j]:
                v = 1.0 if unit else rng.choice(
                    [rng.randint(1, 16) / 8, float(rng.randint(1, 20)),
                     rng.randint(1, 64) / 16])
                r[i, j] = r[j, i] = v
    if not unit and rng.random() < 0.3:     # kOhm ... GOhm, mOhm ... uOhm
        r = r * 10.0 ** rng.choice([-6, -3, 3, 6, 7, 8, 9])
    return r


def exact_pinv(r):
    """Fractions: R = (L + J/n)^-1 - J/n for a connected network"""
    n = len(r)
    c = [[Fraction(0) if r[i][j] == 0 else 1 / Fraction(r[i][j])
          for j in range(n)] for i in range(n)]
    L = [[(sum(c[k][j] for k in range(n)) if i == j else 0) - c[i][j]
          for j in range(n)] for i in range(n)]
    M = [[L[i][j] + Fraction(1, n) for j in range(n)] + [
        Fraction(int(i == j)) for j in range(n)] for i in range(n)]
    for col in range(n):
        piv = next(k for k in range(col, n) if M[k][col] != 0)
        M[col], M[piv] = M[piv], M[col]
        p = M[col][col]
        M[col] = [x / p for x in M[col]]
        for k in range(n):
            if k != col and M[k][col] != 0:
                f = M[k][col]
                M[k] = [x - f * y for x, y in zip(M[k], M[col])]
    R = [[M[i][n + j] - Fraction(1, n) for j in range(n)] for i in range(n)]
    return c, R


def fq(x):
    return qlit(x)


def fm(M):
    return listlit([listlit([fq(x) for x in row]) for row in M])


def shortest_path_resistance(r):
    n = len(r)
    out = np.full((n, n), np.inf)
    for s in range(n):
        dist = [float("inf")] * n
        dist[s] = 0.0
        pq = [(0.0, s)]
        while pq:
            d, u = heapq.heappop(pq)
            if d > dist[u]:
                continue
            for v in range(n):
                if r[u][v] != 0 and d + r[u][v] < dist[v]:
                    dist[v] = d + r[u][v]
                    heapq.heappush(pq, (dist[v], v))
        out[s] = dist
    return out


def make(r, A=None):
    from pyunicorn.core.resistive_network import ResNetwork
    return ResNetwork(np.array(r, dtype=float), silence_level=3)


def eff_matrix(net):
    n = net.N
    return np.array([[net.effective_resistance(a, b) for b in range(n)]
                     for a in range(n)], dtype=float)


# --------------------------------------------------------------------------
# one network
# --------------------------------------------------------------------------

def check_network(ctx, A, r, kind, terms=None):
    from pyunicorn.core._ext.types import to_cy, FIELD
    n = len(A)
    key = {"resistances": np.asarray(r).tolist()}
    ctx.count(key, nontrivial=n >= 3)
    ctx.stat("graph:" + kind)
    ctx.sample({"n": n, "graph": kind,
                "resistances": np.asarray(r).tolist()[:3]})
    ctx.stat("n=%d" % min(n, 10))
    tags = {"graph": kind}
    try:
        net = make(r)
        E = eff_matrix(net)
    except Exception as e:
        ctx.violation("ResNetwork.effective_resistance", "raises",
                      dict(key, err=f"{type(e).__name__}: {e}"),
                      dict(tags, kind="exception"))
        return
    c, Rx = exact_pinv(r)
    Ex = np.array([[float(Rx[a][a] - Rx[a][b] - Rx[b][a] + Rx[b][b])
                    for b in range(n)] for a in range(n)])
    scale = float(np.max(Ex)) or 1.0
    tol = 1e-8 * scale
    bad = []
    if np.abs(E - Ex).max() > tol:
        bad.append("differs from the exact solution of Kirchhoff's equations")
    if not np.allclose(E, E.T, atol=tol, rtol=0):
        bad.append("not symmetric")
    if np.any(np.diag(E) != 0):
        bad.append("self resistance not 0")
    off = E[~np.eye(n, dtype=bool)]
    if off.size and off.min() <= 0:
        bad.append("vanishes between distinct nodes")
    tri = E[:, None, :] - E[:, :, None] - E[None, :, :]
    if tri.max() > 10 * tol:
        bad.append("triangle inequality violated")
    sp = shortest_path_resistance(r)
    if np.any(E > sp + 10 * tol):
        bad.append("exceeds the resistance of a connecting path")
    foster = sum(E[i, j] / r[i][j] for i in range(n) for j in range(i)
                 if r[i][j] != 0)
    if abs(foster - (n - 1)) > 1e-7 * n:
        bad.append(f"Foster's theorem: sum = {foster!r}, N-1 = {n - 1}")
    if bad:
        ctx.violation("ResNetwork.effective_resistance", "; ".join(bad), key,
                      tags)
    # the pseudo-inverse and the summary measures
    Rn = np.asarray(net.get_R(), float)
    Rxf = np.array([[float(x) for x in row] for row in Rx])
    if np.abs(Rn - Rxf).max() > 1e-8 * np.abs(Rxf).max():
        ctx.violation("ResNetwork.get_R", "is not the pseudo-inverse of the "
                      "admittance Laplacian", key, tags)
    if n >= 2:
        pairs = [Ex[i, j] for i in range(n) for j in range(i)]
        for nm, ref in (("average_effective_resistance",
                         2 * sum(pairs) / (n * (n - 1))),
                        ("diameter_effective_resistance", max(pairs))):
            try:
                got = float(getattr(net, nm)())
            except Exception as e:
                ctx.violation("ResNetwork." + nm, "raises",
                              dict(key, err=str(e)), dict(tags,
                                                          kind="exception"))
                continue
            if abs(got - ref) > tol:
                ctx.violation("ResNetwork." + nm, f"{got!r} != {ref!r}", key,
                              tags)
        a = ctx.rng.randrange(n)
        got = float(net.effective_resistance_closeness_centrality(a))
        ref = (n - 1) / Ex[a].sum()
        if abs(got - ref) > 1e-8 * ref:
            ctx.violation("ResNetwork.effective_resistance_closeness_"
                          "centrality", f"{got!r} != {ref!r}", key, tags)
    # admittive measures
    adm = np.array([[float(x) for x in row] for row in c])
    ad = adm.sum(axis=0)
    if np.abs(np.asarray(net.admittive_degree(), float) - ad).max() \
            > 1e-9 * ad.max():
        ctx.violation("ResNetwork.admittive_degree", "is not the sum of the "
                      "admittances of the node's links", key, tags)
    deg = np.asarray(A).sum(axis=0)
    ac = np.array([0.0 if deg[i] == 1 else
                   np.einsum("j,k,jk", adm[i], adm[i], adm)
                   / (ad[i] * (deg[i] - 1)) for i in range(n)])
    try:
        got = np.asarray(net.local_admittive_clustering(), float)
        if np.abs(got - ac).max() > 1e-9 * max(1e-300, np.abs(ac).max()):
            ctx.violation("ResNetwork.local_admittive_clustering",
                          "differs from the defining sum", key, tags)
    except Exception as e:
        ctx.violation("ResNetwork.local_admittive_clustering", "raises",
                      dict(key, err=str(e)), dict(tags, kind="exception"))
    # current-flow betweenness against the defining sums (float64)
    a32 = np.asarray(to_cy(net.get_admittance(), FIELD))
    r32 = np.asarray(to_cy(net.get_R(), FIELD))

    def flow(i, j, s, t, Rm, Am):
        return Am[i, j] * abs((Rm[i, s] - Rm[j, s]) + (Rm[j, t] - Rm[i, t]))
    if n >= 2:
        vc_ref = []
        for i in range(n):
            tot = 0.0
            for t in range(n):
                for s in range(t):
                    if i in (s, t):
                        continue
                    tot += 2 * sum(flow(i, j, s, t, Rxf, adm) / 2
                                   for j in range(n)) / (n * (n - 1))
            vc_ref.append(tot)
        vc = []
        for i in range(n):
            try:
                vc.append(float(net.vertex_current_flow_betweenness(i)))
            except Exception as e:
                ctx.violation("ResNetwork.vertex_current_flow_betweenness",
                              "raises", dict(key, err=str(e), i=i),
                              dict(tags, kind="exception"))
                vc.append(float("nan"))
        vc, vc_ref = np.array(vc), np.array(vc_ref)
        rtol = 2e-4 * max(1.0, np.abs(Rxf).max() * np.abs(adm).max())
        if np.any(np.abs(vc - vc_ref) > rtol * np.maximum(1e-3, vc_ref.max())):
            ctx.violation("ResNetwork.vertex_current_flow_betweenness",
                          "differs from the defining sum", dict(
                              key, got=vc.tolist(), want=vc_ref.tolist()),
                          tags)
        ec_ref = np.array([[2 * sum(flow(i, j, s, t, Rxf, adm)
                                    for t in range(n) for s in range(t))
                            / (n * (n - 1)) for j in range(n)]
                           for i in range(n)])
        try:
            ec = np.asarray(net.edge_current_flow_betweenness(), float)
            if ec.shape != (n, n) or np.any(
                    np.abs(ec - ec_ref) > rtol * max(1e-3, ec_ref.max())):
                ctx.violation("ResNetwork.edge_current_flow_betweenness",
                              "differs from the defining sum", key, tags)
        except Exception as e:
            ctx.violation("ResNetwork.edge_current_flow_betweenness", "raises",
                          dict(key, err=str(e)), dict(tags, kind="exception"))
            ec = None
        if terms is not None and n <= 6:
            terms["pinv"].append(f"({n}%nat, {fm(c)}, {fm(Rx)})")
            terms["pinv_meta"].append(key)
            i = ctx.rng.randrange(n)
            if np.isfinite(vc[i]):
                terms["vcfb"].append(
                    f"({n}%nat, {fm(a32.astype(float))}, "
                    f"{fm(r32.astype(float))}, {i}%nat, {fq(float(vc[i]))})")
                terms["vcfb_meta"].append(dict(key, i=i))
            if ec is not None and n <= 5:
                terms["ecfb"].append(
                    f"({n}%nat, {fm(a32.astype(float))}, "
                    f"{fm(r32.astype(float))}, {fm(ec)})")
                terms["ecfb_meta"].append(key)
    return net, Ex


# --------------------------------------------------------------------------
# laws on special circuits, updates
# --------------------------------------------------------------------------

def check_laws(ctx):
    rng = ctx.rng
    # series: a path; parallel: a cycle seen from two adjacent nodes
    n = rng.randint(2, 8)
    rs = [rng.randint(1, 40) / 4 for _ in range(n - 1)]
    r = np.zeros((n, n))
    for i, v in enumerate(rs):
        r[i, i + 1] = r[i + 1, i] = v
    ctx.evaluations += 1
    ctx.stat("law:series")
    net = make(r)
    a, b = sorted(rng.sample(range(n), 2)) if n > 2 else (0, 1)
    got = net.effective_resistance(a, b)
    if abs(got - sum(rs[a:b])) > 1e-9 * max(1, sum(rs)):
        ctx.violation("ResNetwork.effective_resistance", "series law fails",
                      {"resistances": r.tolist(), "a": a, "b": b,
                       "got": float(got), "want": sum(rs[a:b])},
                      {"law": "series"})
    n = rng.randint(3, 8)
    rs = [rng.randint(1, 40) / 4 for _ in range(n)]
    r = np.zeros((n, n))
    for i, v in enumerate(rs):
        r[i, (i + 1) % n] = r[(i + 1) % n, i] = v
    ctx.evaluations += 1
    ctx.stat("law:parallel")
    net = make(r)
    a, b = sorted(rng.sample(range(n), 2))
    r1 = sum(rs[a:b])
    r2 = sum(rs) - r1
    got = net.effective_resistance(a, b)
    if abs(got - r1 * r2 / (r1 + r2)) > 1e-9 * max(1, sum(rs)):
        ctx.violation("ResNetwork.effective_resistance", "parallel law fails",
                      {"resistances": r.tolist(), "a": a, "b": b,
                       "got": float(got), "want": r1 * r2 / (r1 + r2)},
                      {"law": "parallel"})
    # complex impedances: series law
    n = rng.randint(2, 6)
    zs = [complex(rng.randint(1, 20) / 2, rng.randint(-10, 10) / 2)
          for _ in range(n - 1)]
    z = np.zeros((n, n), dtype=complex)
    for i, v in enumerate(zs):
        z[i, i + 1] = z[i + 1, i] = v
    ctx.evaluations += 1
    ctx.stat("law:complex series")
    try:
        from pyunicorn.core.resistive_network import ResNetwork
        net = ResNetwork(z, silence_level=3)
        got = net.effective_resistance(0, n - 1)
        if abs(got - sum(zs)) > 1e-8 * max(1, abs(sum(zs))):
            ctx.violation("ResNetwork.effective_resistance",
                          "series law fails for complex impedances",
                          {"impedances": [[str(x) for x in row] for row in z],
                           "got": str(got), "want": str(sum(zs))},
                          {"law": "complex series"})
    except Exception as e:
        ctx.violation("ResNetwork.effective_resistance", "raises",
                      {"impedances": [[str(x) for x in row] for row in z],
                       "err": f"{type(e).__name__}: {e}"},
                      {"kind": "exception", "law": "complex series"})


QUERIES = ["average_effective_resistance", "diameter_effective_resistance",
           "effective_resistance", "vertex_current_flow_betweenness",
           "edge_current_flow_betweenness", "admittive_degree",
           "local_admittive_clustering", "get_R",
           "effective_resistance_closeness_centrality",
           "average_neighbors_admittive_degree",
           "global_admittive_clustering"]


def query(net, name, a, b):
    if name == "effective_resistance":
        return net.effective_resistance(a, b)
    if name in ("vertex_current_flow_betweenness",
                "effective_resistance_closeness_centrality"):
        return getattr(net, name)(a)
    return getattr(net, name)()


def check_updates(ctx, terms=None):
    """sequences of update_resistances interleaved with queries in random
    order: every answer must equal the one of a fresh object"""
    rng = ctx.rng
    n = rng.randint(2, 7)
    A, kind = connected_graph(rng, n)
    rlist = [resistances(rng, A) for _ in range(rng.randint(2, 4))]
    c = rng.random()
    if c < 0.3:
        rlist[1] = rlist[0] * rng.choice([10.0, 0.5, 3.0])
    elif c < 0.6:                      # a small relative change
        rlist[1] = rlist[0] * (1 + rng.choice([1e-6, 3e-6, -2e-6, 1e-7]))
    elif c < 0.75:                     # one link changes slightly
        rlist[1] = rlist[0].copy()
        i, j = np.argwhere(np.triu(rlist[0]) != 0)[0]
        rlist[1][i, j] = rlist[1][j, i] = rlist[0][i, j] * (1 + 2e-6)
    ctx.evaluations += 1
    ctx.stat("updates")
    net = make(rlist[0])
    hist, hops, outs = [], [], []
    cur = 0
    buf = None
    held = []
    # one way of handing updates over dominates a history (a caller usually
    # sticks to one idiom)
    mode = rng.choice(["fresh", "same array", "own array"])
    for step in range(rng.randint(4, 12)):
        if rng.random() < 0.35:
            cur = rng.randrange(len(rlist))
            # how the caller hands the new values over: a fresh array, a
            # list, the array passed before edited in place, or the
            # network's own resistances edited in place
            how = rng.choice([mode, mode, "fresh", "list", "same array",
                              "own array"])
            if how == "fresh":
                net.update_resistances(rlist[cur].copy())
            elif how == "list":
                net.update_resistances(rlist[cur].tolist())
            elif how == "same array":
                if buf is None:
                    buf = rlist[cur].copy()
                    net.update_resistances(buf)
                buf[:] = rlist[cur]
                net.update_resistances(buf)
            else:
                own = net.resistances
                if isinstance(own, np.ndarray) and own.shape == \
                        rlist[cur].shape and own.dtype == rlist[cur].dtype:
                    own[:] = rlist[cur]
                    net.update_resistances(own)
                else:
                    how = "fresh"
                    net.update_resistances(rlist[cur].copy())
            ctx.stat("update via " + how)
            hist.append(["update", cur, how])
            hops.append(f"HUpdate {cur}")
            outs.append(0.0)
            continue
        name = rng.choice(QUERIES)
        a, b = rng.randrange(n), rng.randrange(n)
        hist.append([name, a, b])
        try:
            got = query(net, name, a, b)
            want = query(make(rlist[cur]), name, a, b)
        except Exception as e:
            ctx.violation("ResNetwork." + name, "raises after updates",
                          {"resistances": [x.tolist() for x in rlist],
                           "history": hist, "err": str(e)},
                          {"kind": "exception"})
            return
        # a result the caller still holds must not change when a later
        # evaluation runs (comparing values before and after an update)
        for hname, hstep, ref, snap in held:
            if not np.array_equal(np.asarray(ref), snap):
                ctx.violation("ResNetwork." + hname,
                              "a result handed out earlier changed when "
                              + name + " was evaluated later",
                              {"resistances": [x.tolist() for x in rlist],
                               "history": hist, "held_since_step": hstep},
                              {"held": True})
                return
        if isinstance(got, np.ndarray):
            held.append((name, step, got, np.array(got, copy=True)))
        if not np.allclose(np.asarray(got, dtype=complex),
                           np.asarray(want, dtype=complex), rtol=1e-9,
                           atol=1e-9 * np.abs(np.asarray(
                               want, dtype=complex)).max()):
            ctx.violation("ResNetwork." + name,
                          "does not follow update_resistances",
                          {"resistances": [x.tolist() for x in rlist],
                           "history": hist, "got": np.asarray(got).tolist(),
                           "want": np.asarray(want).tolist()},
                          {"stale": True})
            return
        if name == "average_effective_resistance":
            hops.append("HAverage")
            outs.append(float(got))
        elif name == "diameter_effective_resistance":
            hops.append("HDiameter")
            outs.append(float(got))
        elif name == "effective_resistance":
            hops.append(f"HEff {a} {b}")
            outs.append(float(got))
    if terms is not None and n <= 5 and hops:
        Rs = [exact_pinv(x)[1] for x in rlist]
        # the model starts from tag 0 = rlist[0]
        terms["hist"].append(
            f"({n}%nat, {listlit([fm(R) for R in Rs])}, "
            f"{listlit(hops)}, {listlit([fq(x) for x in outs])})")
        terms["hist_meta"].append({"resistances": [x.tolist() for x in rlist],
                                   "history": hist})
    # results handed out before an update stay what they were (compare the
    # values before and after a change of the resistances)
    net = make(rlist[0])
    for nm in ("edge_current_flow_betweenness", "admittive_degree", "get_R",
               "get_admittance", "local_admittive_clustering"):
        try:
            first = getattr(net, nm)()
            if hasattr(first, "toarray") or not isinstance(first, np.ndarray):
                continue
            snap = np.array(first, copy=True)
            net.update_resistances(rlist[1].copy())
            getattr(net, nm)()
            ctx.evaluations += 1
            if not np.array_equal(first, snap):
                ctx.violation("ResNetwork." + nm,
                              "a result handed out earlier changed when the "
                              "measure was evaluated again after "
                              "update_resistances",
                              {"resistances": [x.tolist() for x in rlist[:2]],
                               "measure": nm}, {"held": True})
            net.update_resistances(rlist[0].copy())
        except Exception as e:
            ctx.violation("ResNetwork." + nm, "raises",
                          {"resistances": [x.tolist() for x in rlist[:2]],
                           "err": f"{type(e).__name__}: {e}"},
                          {"kind": "exception"})
    # the caller's array edited in place and handed over again: every query
    # follows (queried before and after, so that anything kept from the
    # first evaluation would show)
    buf = rlist[0].copy()
    net = make(rlist[0])
    net.update_resistances(buf)
    a_, b_ = rng.randrange(n), rng.randrange(n)
    for nm in QUERIES:
        try:
            query(net, nm, a_, b_)
        except Exception:
            pass
    buf[:] = rlist[1]
    net.update_resistances(buf)
    ref = make(rlist[1])
    for nm in QUERIES:
        try:
            got, want = query(net, nm, a_, b_), query(ref, nm, a_, b_)
        except Exception as e:
            ctx.violation("ResNetwork." + nm, "raises after an in-place "
                          "update", {"resistances": [x.tolist() for x in
                                                     rlist[:2]],
                                     "err": str(e)}, {"kind": "exception"})
            continue
        ctx.evaluations += 1
        if not np.allclose(np.asarray(got, dtype=complex),
                           np.asarray(want, dtype=complex), rtol=1e-9,
                           atol=1e-9 * np.abs(np.asarray(
                               want, dtype=complex)).max()):
            ctx.violation("ResNetwork." + nm,
                          "does not follow update_resistances when the same "
                          "array is edited in place and handed over again",
                          {"resistances": [x.tolist() for x in rlist[:2]],
                           "node": a_, "other": b_,
                           "got": np.asarray(got).tolist(),
                           "want": np.asarray(want).tolist()},
                          {"stale": True, "same_array": True})
    # linear scaling
    k = rng.choice([2.0, 10.0, 0.25])
    net = make(rlist[0])
    E0 = eff_matrix(net)
    net.update_resistances(rlist[0] * k)
    E1 = eff_matrix(net)
    if not np.allclose(E1, k * E0, rtol=1e-8, atol=1e-9 * E0.max()):
        ctx.violation("ResNetwork.effective_resistance",
                      "does not scale linearly with the resistances",
                      {"resistances": rlist[0].tolist(), "k": k}, {})


def run_all(ctx, terms=None):
    rng = ctx.rng
    from pyunicorn.core.resistive_network import ResNetwork
    t = ResNetwork.SmallTestNetwork()
    check_network(ctx, np.asarray(t.adjacency), np.asarray(
        t.resistances, float), "test network", terms)
    for _ in range(ctx.n(30, 250)):
        n = rng.randint(2, 6) if rng.random() < 0.7 else rng.randint(7, 12)
        A, kind = connected_graph(rng, n)
        r = resistances(rng, A, unit=rng.random() < 0.15)
        check_network(ctx, A, r, kind, terms)
    for _ in range(ctx.n(20, 150)):
        check_laws(ctx)
    for _ in range(ctx.n(25, 200)):
        check_updates(ctx, terms)


def correspondence(ctx):
    terms = {k: [] for k in ("pinv", "pinv_meta", "vcfb", "vcfb_meta", "ecfb",
                             "ecfb_meta", "hist", "hist_meta")}
    with warnings.catch_warnings():
        warnings.simplefilter("ignore")
        run_all(ctx, terms)
    ctx._done = True
    for k, fn, chunk in (("pinv", "check_pinv", 30), ("vcfb", "check_vcfb", 20),
                         ("ecfb", "check_ecfb", 8),
                         ("hist", "check_history", 20)):
        fails = ctx.coq_failing("c18_" + k, HEADER, terms[k], fn, chunk=chunk)
        for i in fails or []:
            ctx.corr(f"resistive model != implementation ({k})",
                     terms[k + "_meta"][i], None)
        ctx.traces += len(terms[k])
        ctx.stats["c_" + k] = len(terms[k])


def search(ctx):
    ctx.stats["rule"] = (
        "connected graphs (random trees, trees + extra links, cycles, paths, "
        "resistances from micro-ohm to giga-ohm scales, updates by relative "
        "changes down to 1e-7, "
        "ladders, complete graphs; n = 2..12) with resistances k/8, k/16 or "
        "integers, 15% unit resistances; exact Fractions solution of "
        "Kirchhoff's equations as reference (1e-8 relative); metric axioms, "
        "path bound (Dijkstra), Foster, series / parallel / complex series "
        "laws, summary measures, admittive measures, current-flow betweenness "
        "against float64 defining sums (float32 inside: 2e-4), histories of "
        "update_resistances interleaved with 11 queries in random order "
        "against fresh objects, linear scaling. Non-trivial = n >= 3.")
    if not getattr(ctx, "_done", False) or ctx.scale > 1:
        with warnings.catch_warnings():
            warnings.simplefilter("ignore")
            run_all(ctx)


def replay(ctx, rep):
    c = rep["case"]
    with warnings.catch_warnings():
        warnings.simplefilter("ignore")
        r = c.get("resistances")
        if r is not None and "history" not in c and np.ndim(r) == 2 \
                and "a" not in c and "k" not in c:
            r = np.array(r, float)
            check_network(ctx, (r != 0).astype(int), r, "replay")
        else:
            run_all(ctx)
