"""C14 — visibility graphs realise the geometric visibility criterion."""
import itertools
import warnings
from fractions import Fraction

import numpy as np

from common import qlit, blit, listlit

MODELLED = [
    "timeseries/_ext/numerics.pyx: _visibility_relations_no_missingvalues, "
    "_visibility_relations_missingvalues, _visibility_relations_horizontal",
    "VisibilityGraph.visibility_relations / visibility_relations_horizontal, "
    "retarded_degree / advanced_degree",
]

HEADER = """From Coq Require Import QArith List Bool Arith.
From PV.Base Require Import F32.
From PV.Model Require Import Visibility.
Import ListNotations.
Fixpoint eqlb (a b : list bool) : bool :=
  match a, b with
  | [], [] => true
  | x :: a', y :: b' => Bool.eqb x y && eqlb a' b'
  | _, _ => false
  end.
Fixpoint eqmb (a b : list (list bool)) : bool :=
  match a, b with
  | [], [] => true
  | x :: a', y :: b' => eqlb x y && eqmb a' b'
  | _, _ => false
  end.
Definition check_nat (c : list Q * list Q * list (list bool)) : bool :=
  let '(xs, ts, A) := c in eqmb (vis_natural xs ts) A.
Definition check_mv (c : list Q * list Q * list bool * list (list bool)) : bool :=
  let '(xs, ts, m, A) := c in eqmb (vis_missing xs ts m) A.
Definition check_hor (c : list Q * list (list bool)) : bool :=
  let '(xs, A) := c in eqmb (vis_horizontal xs) A.
"""


TRANSLATORS = [('pyx_visibility', 'VisibilityK')]


def theorems(ctx):
    ctx.modelled += MODELLED
    ctx.generate(TRANSLATORS)
    ctx.theorems()
    if ctx.tier == "thorough":
        ctx.coqchk()


def gen_series(ctx):
    rng = ctx.rng
    out = []
    for _ in range(ctx.n(150, 1200)):
        n = rng.randint(2, 12)
        kind = rng.choice(["int", "plateau", "monotone", "collinear",
                           "dyadic"])
        if kind == "int":
            x = [float(rng.randint(-6, 6)) for _ in range(n)]
        elif kind == "plateau":
            x, v = [], 0.0
            for _ in range(n):
                if rng.random() < 0.4:
                    v = float(rng.randint(-3, 3))
                x.append(v)
        elif kind == "monotone":
            x = sorted(float(rng.randint(-9, 9)) for _ in range(n))
            if rng.random() < 0.5:
                x.reverse()
        elif kind == "collinear":
            a, b = rng.randint(-3, 3), rng.randint(-4, 4)
            x = [float(a * k + b) for k in range(n)]
            for _ in range(rng.randint(0, 3)):
                x[rng.randrange(n)] -= float(rng.randint(1, 5))
        else:
            x = [rng.randint(-32, 32) / 8.0 for _ in range(n)]
        tk = rng.choice(["unit", "irregular", "step3", "step5"])
        if tk == "unit":
            t = [float(k) for k in range(n)]
        elif tk == "irregular":
            t, c = [], 0
            for _ in range(n):
                c += rng.randint(1, 5)
                t.append(float(c))
        else:
            st = 3 if tk == "step3" else 5
            t = [float(st * k + 1) for k in range(n)]
        mv = None
        if rng.random() < 0.3 and n > 2:
            mv = [rng.random() < 0.25 for _ in range(n)]
        out.append({"x": x, "t": t, "mv": mv, "kind": kind, "timing": tk})
    if ctx.tier == "thorough":
        for n in range(2, 9):          # all NaN masks
            x = [float(rng.randint(-4, 4)) for _ in range(n)]
            for mask in itertools.product([False, True], repeat=n):
                out.append({"x": x, "t": [float(k) for k in range(n)],
                            "mv": list(mask), "kind": "allmasks",
                            "timing": "unit"})
    return out


def build(case, horizontal=False):
    from pyunicorn.timeseries.visibility_graph import VisibilityGraph
    x = np.array(case["x"], dtype=float)
    if case["mv"] is not None:
        x = x.copy()
        x[np.array(case["mv"])] = np.nan
    with warnings.catch_warnings():
        warnings.simplefilter("ignore")
        return VisibilityGraph(x, timings=np.array(case["t"]),
                               missing_values=case["mv"] is not None,
                               horizontal=horizontal, silence_level=3)


def ql(xs):
    return listlit([qlit(float(v)) for v in xs])


def bm(A):
    return listlit([listlit([blit(bool(v)) for v in r]) for r in A])


def correspondence(ctx):
    cases = gen_series(ctx)
    ctx._cases = cases
    nat_t, mv_t, hor_t = [], [], []
    nat_m, mv_m, hor_m = [], [], []
    for c in cases:
        try:
            A = build(c).adjacency
        except Exception as e:
            ctx.corr("VisibilityGraph raises", c, f"{type(e).__name__}: {e}")
            continue
        c["A"] = np.asarray(A).astype(int).tolist()
        if c["mv"] is None:
            nat_t.append(f"({ql(c['x'])}, {ql(c['t'])}, {bm(A)})")
            nat_m.append(c)
            H = build(c, horizontal=True).adjacency
            c["H"] = np.asarray(H).astype(int).tolist()
            hor_t.append(f"({ql(c['x'])}, {bm(H)})")
            hor_m.append(c)
        else:
            xs = [0.0 if m else v for v, m in zip(c["x"], c["mv"])]
            mvl = listlit([blit(m) for m in c["mv"]])
            mv_t.append(f"({ql(xs)}, {ql(c['t'])}, {mvl}, {bm(A)})")
            mv_m.append(c)
    for name, terms, fn, meta in (("nat", nat_t, "check_nat", nat_m),
                                  ("mv", mv_t, "check_mv", mv_m),
                                  ("hor", hor_t, "check_hor", hor_m)):
        fails = ctx.coq_failing("c14_" + name, HEADER, terms, fn, chunk=200)
        for i in fails or []:
            ctx.corr(f"visibility model != implementation ({name})",
                     {k: meta[i][k] for k in ("x", "t", "mv")}, None)
        ctx.traces += len(terms)
        ctx.stats["c_" + name] = len(terms)


# --------------------------------------------------------------------------
# P: rational-arithmetic brute force + metamorphic relations
# --------------------------------------------------------------------------

def brute(x, t, mv, horizontal=False):
    n = len(x)
    X = [Fraction(v) for v in x]
    T = [Fraction(v) for v in t]
    A = [[0] * n for _ in range(n)]
    for i in range(n):
        for j in range(i + 1, n):
            if mv is not None and (mv[i] or mv[j]):
                continue
            ok = True
            for k in range(i + 1, j):
                if mv is not None and mv[k]:
                    ok = False
                    break
                if horizontal:
                    if not (X[k] < min(X[i], X[j])):
                        ok = False
                        break
                else:
                    # strictly below the chord
                    if not ((X[k] - X[i]) * (T[j] - T[i])
                            < (X[j] - X[i]) * (T[k] - T[i])):
                        ok = False
                        break
            if ok:
                A[i][j] = A[j][i] = 1
    return A


def check_case(ctx, c):
    key = {k: c[k] for k in ("x", "t", "mv")}
    n = len(c["x"])
    try:
        g = build(c)
        A = np.asarray(g.adjacency).astype(int)
    except Exception as e:
        ctx.violation("VisibilityGraph", "raises", dict(
            key, err=f"{type(e).__name__}: {e}"), {"kind": "exception"})
        return
    want = brute(c["x"], c["t"], c["mv"])
    ctx.count(key, nontrivial=n >= 3)
    ctx.stat("kind=" + c["kind"])
    ctx.stat("timing=" + c["timing"])
    ctx.stat("missing=%s" % (c["mv"] is not None))
    if A.tolist() != want:
        ctx.violation("VisibilityGraph.adjacency",
                      "differs from the geometric criterion "
                      "(strictly below the chord, rational arithmetic)",
                      dict(key, got=A.tolist(), want=want),
                      {"missing_values": c["mv"] is not None})
    if c["mv"] is None:
        H = np.asarray(build(c, horizontal=True).adjacency).astype(int)
        wantH = brute(c["x"], c["t"], None, horizontal=True)
        if H.tolist() != wantH:
            ctx.violation("VisibilityGraph(horizontal).adjacency",
                          "differs from the horizontal criterion",
                          dict(key, got=H.tolist(), want=wantH), {})
        # affine maps of values and times (dyadic factors: exact in binary32)
        a, b = ctx.rng.choice([0.5, 2.0, 4.0]), float(ctx.rng.randint(-3, 3))
        cc, d = ctx.rng.choice([0.5, 2.0, 3.0]), float(ctx.rng.randint(0, 5))
        c2 = dict(c, x=[a * v + b for v in c["x"]],
                  t=[cc * v + d for v in c["t"]])
        A2 = np.asarray(build(c2).adjacency).astype(int)
        if A2.tolist() != A.tolist():
            ctx.violation("VisibilityGraph.adjacency",
                          "changes under a positive affine map",
                          dict(key, a=a, b=b, c=cc, d=d), {})
        # time reversal mirrors the graph and swaps retarded / advanced
        T = max(c["t"]) + 1.0
        c3 = dict(c, x=list(reversed(c["x"])),
                  t=[T - v for v in reversed(c["t"])])
        g3 = build(c3)
        A3 = np.asarray(g3.adjacency).astype(int)
        if A3.tolist() != A[::-1, ::-1].tolist():
            ctx.violation("VisibilityGraph.adjacency",
                          "time reversal does not mirror the graph",
                          dict(key), {})
        else:
            for ra, ad in (("retarded_degree", "advanced_degree"),
                           ("retarded_local_clustering",
                            "advanced_local_clustering"),
                           ("retarded_closeness", "advanced_closeness"),
                           ("advanced_closeness", "retarded_closeness"),
                           ("retarded_betweenness", "advanced_betweenness")):
                with warnings.catch_warnings():
                    warnings.simplefilter("ignore")
                    r = np.asarray(getattr(g, ra)(), float)
                    a3 = np.asarray(getattr(g3, ad)(), float)[::-1]
                if not np.allclose(r, a3, equal_nan=True):
                    ctx.violation(f"VisibilityGraph.{ra}",
                                  f"is not {ad} of the time-reversed series",
                                  dict(key, got=r.tolist(),
                                       mirrored=a3.tolist()), {})
    else:
        # series with missing samples: the graph may fall apart; time
        # reversal still swaps the retarded and the advanced measures
        T = max(c["t"]) + 1.0
        c3 = dict(c, x=list(reversed(c["x"])),
                  t=[T - v for v in reversed(c["t"])],
                  mv=list(reversed(c["mv"])))
        try:
            g3 = build(c3)
            for ra, ad in (("retarded_degree", "advanced_degree"),
                           ("retarded_closeness", "advanced_closeness"),
                           ("advanced_closeness", "retarded_closeness"),
                           ("retarded_local_clustering",
                            "advanced_local_clustering")):
                with warnings.catch_warnings():
                    warnings.simplefilter("ignore")
                    with np.errstate(all="ignore"):
                        r = np.asarray(getattr(g, ra)(), float)
                        a3 = np.asarray(getattr(g3, ad)(), float)[::-1]
                if not np.allclose(r, a3, equal_nan=True):
                    ctx.violation(f"VisibilityGraph.{ra}",
                                  f"is not {ad} of the time-reversed series "
                                  "(missing samples)",
                                  dict(key, got=r.tolist(),
                                       mirrored=a3.tolist()),
                                  {"missing_values": True})
        except Exception as e:
            ctx.violation("VisibilityGraph (time reversed)", "raises",
                          dict(key, err=f"{type(e).__name__}: {e}"),
                          {"kind": "exception"})
    rd = np.asarray(g.retarded_degree())
    ad = np.asarray(g.advanced_degree())
    if not np.array_equal(rd + ad, np.asarray(g.degree())):
        ctx.violation("VisibilityGraph.retarded_degree + advanced_degree",
                      "!= degree", dict(key, retarded=rd.tolist(),
                                        advanced=ad.tolist()), {})
    ctx.sample(key)


def hub_case(ctx):
    """a long strictly convex series: every pair of samples sees each other,
    so node i has i past and N-1-i future neighbours, all mutually linked
    (degrees above 181 make k(k-1) exceed 16 bits)"""
    from pyunicorn.timeseries.visibility_graph import VisibilityGraph
    N = 200
    x = np.arange(N, dtype=float) ** 2
    ctx.evaluations += 1
    ctx.stat("convex ramp N=200")
    key = {"x": "i**2 for i in range(200)", "n": N}
    with warnings.catch_warnings():
        warnings.simplefilter("ignore")
        g = VisibilityGraph(x, silence_level=3)
        A = np.asarray(g.adjacency).astype(int)
        if not np.array_equal(A, 1 - np.eye(N, dtype=int)):
            ctx.violation("VisibilityGraph.adjacency",
                          "a strictly convex series is not a complete graph",
                          key, {"hub": True})
            return
        i = np.arange(N)
        for nm, want in (("retarded_degree", i), ("advanced_degree",
                                                 N - 1 - i)):
            got = np.asarray(getattr(g, nm)(), float)
            if not np.array_equal(got, want.astype(float)):
                ctx.violation(f"VisibilityGraph.{nm}",
                              "differs from the number of past / future "
                              "neighbours", dict(key, got=got.tolist()),
                              {"hub": True})
        for nm, k in (("retarded_local_clustering", i),
                      ("advanced_local_clustering", N - 1 - i)):
            got = np.asarray(getattr(g, nm)(), float)
            m = k >= 2
            if not np.allclose(got[m], 1.0):
                j = int(np.flatnonzero(m & ~np.isclose(got, 1.0))[0])
                ctx.violation(f"VisibilityGraph.{nm}",
                              f"is {got[j]!r} at node {j} whose {int(k[j])} "
                              "neighbours on that side are all linked "
                              "(expected 1)", dict(key, node=j,
                                                   got=float(got[j])),
                              {"hub": True})


def search(ctx):
    hub_case(ctx)
    ctx.stats["rule"] = (
        "series: integer / plateau / monotone / collinear-with-dents / dyadic "
        "values, n = 2..12, timings unit / irregular integer / step 3 / step "
        "5 (non-dyadic slopes), NaN masks (all masks for n<=8 in thorough); "
        "non-trivial = at least 3 samples; distinct by hash of (x, t, mask)")
    cases = getattr(ctx, "_cases", None)
    if cases is None or ctx.scale > 1:
        cases = gen_series(ctx)
    for c in cases:
        check_case(ctx, c)


def replay(ctx, rep):
    c = rep["case"]
    check_case(ctx, {"x": c["x"], "t": c["t"], "mv": c["mv"],
                     "kind": "replay", "timing": "replay"})
