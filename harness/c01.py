"""C01 — results always reflect the object's current state (cache coherence)."""
import warnings

import random as pyrandom

import numpy as np

import catalog
import graphs

TRANSLATORS = [("py_cache_facts", "CacheFacts")]

MODELLED = [
    "core/cache.py: Cached.method (lru_cache key = self hash over "
    "__cache_state__ + attrs + arguments), Cached.__hash__/__eq__",
    "every class mixing in Cached: key fields, read fields and mutators "
    "regenerated from the source (coq/Gen/CacheFacts.v)",
]


def theorems(ctx):
    ctx.modelled += MODELLED
    ctx.generate(TRANSLATORS)
    ctx.theorems()
    if ctx.tier == "thorough":
        ctx.coqchk()


# --------------------------------------------------------------------------
# adapters: how to build an object, mutate it, and build its fresh twin
# --------------------------------------------------------------------------

def _grid(n, rng):
    from pyunicorn.core.geo_grid import GeoGrid
    lat = np.array(sorted(rng.sample(range(-80, 81, 5), n)), dtype=float)
    lon = np.array([rng.randrange(-170, 171, 10) for _ in range(n)],
                   dtype=float)
    return GeoGrid(np.arange(10), lat, lon, silence_level=3), lat, lon


class NetAdapter:
    name = "Network"

    def cls(self):
        from pyunicorn.core.network import Network
        return Network

    def make(self, rng):
        n = rng.randint(3, 8)
        d = rng.random() < 0.3
        A = graphs.random_graph(rng, n, 0.3 + 0.5 * rng.random(), d)
        spec = {"A": A, "w": np.array(graphs.weights(rng, n)),
                "directed": d, "attrs": {}}
        if A.sum():
            spec["attrs"]["lw"] = graphs.attr_matrix(rng, A, symmetric=not d)
        return spec

    def build(self, spec):
        net = self.cls()(adjacency=spec["A"].copy(),
                         directed=spec["directed"],
                         node_weights=spec["w"].copy(), silence_level=3)
        for k, W in spec["attrs"].items():
            net.set_link_attribute(k, W)
        return net

    def mutators(self):
        def set_adj(o, s, rng):
            n = len(s["A"])
            s["A"] = graphs.random_graph(rng, n, 0.2 + 0.6 * rng.random(),
                                         s["directed"])
            o.adjacency = s["A"].copy()
            s["attrs"] = {}
            # the setter resets the node weights? no: it keeps them
        def set_edges(o, s, rng):
            n = len(s["A"])
            A = graphs.random_graph(rng, n, 0.3 + 0.5 * rng.random(),
                                    s["directed"])
            if A.sum() == 0:
                A[0, 1] = 1
                if not s["directed"]:
                    A[1, 0] = 1
            el = np.array([(i, j) for i in range(n) for j in range(n)
                           if A[i, j] and (s["directed"] or i < j)])
            o.set_edge_list(el, n_nodes=n)
            s["A"] = A
            s["attrs"] = {}
        def set_w(o, s, rng):
            s["w"] = np.array(graphs.weights(rng, len(s["A"])))
            o.node_weights = s["w"].copy()
        def set_la(o, s, rng):
            if s["A"].sum() == 0:
                return False
            s["attrs"]["lw"] = graphs.attr_matrix(
                rng, s["A"], symmetric=not s["directed"])
            o.set_link_attribute("lw", s["attrs"]["lw"])
        def rewire(o, s, rng):
            if s["directed"] or s["A"].sum() < 4:
                return False
            o.randomly_rewire(iterations=3)
            s["A"] = (o.adjacency != 0).astype(int)
            s["attrs"] = {}
        return [("adjacency.setter", set_adj), ("set_edge_list", set_edges),
                ("node_weights.setter", set_w),
                ("set_link_attribute", set_la), ("randomly_rewire", rewire)]

    def queries(self, obj):
        qs = [(n, c) for n, c in catalog.public_queries(type(obj))
              if n not in SKIP_Q]
        qs += [("degree(lw)", lambda o: o.degree(key="lw")),
               ("indegree(lw)", lambda o: o.indegree(key="lw")),
               ("nsi_degree(lw)", lambda o: o.nsi_degree(key="lw")),
               ("nsi_degree(tw=2)", lambda o: o.nsi_degree(typical_weight=2.)),
               ("path_lengths(lw)", lambda o: o.path_lengths("lw")),
               ("local_cyclemotif_clustering(lw)",
                lambda o: o.local_cyclemotif_clustering(key="lw")),
               ("nsi_local_inmotif_clustering(lw)",
                lambda o: o.nsi_local_inmotif_clustering(key="lw")),
               ("closeness(lw)", lambda o: o.closeness("lw")),
               ("link_attribute(lw)", lambda o: o.link_attribute("lw")),
               ("local_cliquishness(4)", lambda o: o.local_cliquishness(4)),
               ("summary", lambda o: np.array(
                   [o.N, o.n_links, o.link_density, o.total_node_weight,
                    o.mean_node_weight], dtype=float)),
               ("adjacency", lambda o: o.adjacency),
               ("node_weights", lambda o: o.node_weights)]
        return qs


SKIP_Q = {"sp_Aplus", "sp_diag_w", "sp_diag_w_inv", "sp_diag_sqrt_w",
          "sp_nsi_diag_k", "sp_nsi_diag_k_inv", "distance_based_measures",
          # ARPACK start vectors are random: not reproducible on a twin
          "eigenvector_centrality", "nsi_eigenvector_centrality", "pagerank",
          "msf_synchronizability",
          "print_boundaries", "grid_size", "geometric_distance_distribution",
          "inv_correlation_distance", "correlation"}


class GeoAdapter(NetAdapter):
    name = "GeoNetwork"

    def cls(self):
        from pyunicorn.core.geo_network import GeoNetwork
        return GeoNetwork

    def make(self, rng):
        n = rng.randint(4, 7)
        A = graphs.random_graph(rng, n, 0.3 + 0.5 * rng.random(), False)
        _, lat, lon = _grid(n, rng)
        return {"A": A, "directed": False, "lat": lat, "lon": lon,
                "nwt": rng.choice(["surface", "irrigation", None]),
                "attrs": {}}

    def build(self, spec):
        from pyunicorn.core.geo_grid import GeoGrid
        g = GeoGrid(np.arange(10), spec["lat"], spec["lon"], silence_level=3)
        net = self.cls()(grid=g, adjacency=spec["A"].copy(), directed=False,
                         node_weight_type=spec["nwt"], silence_level=3)
        for k, W in spec["attrs"].items():
            net.set_link_attribute(k, W)
        return net

    def mutators(self):
        base = dict(NetAdapter.mutators(self))

        def set_nwt(o, s, rng):
            s["nwt"] = rng.choice(["surface", "irrigation", None])
            o.set_node_weight_type(s["nwt"])
        return [("adjacency.setter", base["adjacency.setter"]),
                ("set_link_attribute", base["set_link_attribute"]),
                ("set_node_weight_type", set_nwt)]

    def queries(self, obj):
        qs = [(n, c) for n, c in NetAdapter.queries(self, obj)
              if n not in ("node_weights",)]
        qs.append(("node_weights", lambda o: o.node_weights))
        return qs


class ClimAdapter(NetAdapter):
    name = "ClimateNetwork"

    def cls(self):
        from pyunicorn.climate.climate_network import ClimateNetwork
        return ClimateNetwork

    def make(self, rng):
        n = rng.randint(4, 7)
        S = np.zeros((n, n))
        for i in range(n):
            for j in range(i):
                S[i, j] = S[j, i] = rng.randint(1, 63) / 64.0
        np.fill_diagonal(S, 1.0)
        _, lat, lon = _grid(n, rng)
        return {"S": S, "lat": lat, "lon": lon,
                "thr": rng.randint(8, 56) / 64.0, "non_local": False,
                "directed": False}

    def build(self, spec):
        from pyunicorn.core.geo_grid import GeoGrid
        g = GeoGrid(np.arange(10), spec["lat"], spec["lon"], silence_level=3)
        return self.cls()(grid=g, similarity_measure=spec["S"].copy(),
                          threshold=spec["thr"], non_local=spec["non_local"],
                          silence_level=3)

    def mutators(self):
        def set_thr(o, s, rng):
            s["thr"] = rng.randint(4, 60) / 64.0
            o.set_threshold(s["thr"])
        def set_dens(o, s, rng):
            o.set_link_density(rng.randint(1, 9) / 10.0)
            s["thr"] = float(o.threshold())
        def set_nl(o, s, rng):
            s["non_local"] = not s["non_local"]
            o.set_non_local(s["non_local"])
        return [("set_threshold", set_thr), ("set_link_density", set_dens),
                ("set_non_local", set_nl)]

    def queries(self, obj):
        qs = NetAdapter.queries(self, obj)
        qs = [(n, c) for n, c in qs if "(lw)" not in n]
        qs.append(("threshold", lambda o: np.float64(o.threshold())))
        return qs


class TsonisAdapter(ClimAdapter):
    name = "TsonisClimateNetwork"

    def cls(self):
        from pyunicorn.climate.tsonis import TsonisClimateNetwork
        return TsonisClimateNetwork

    def make(self, rng):
        n, T = rng.randint(4, 6), 24
        obs = np.array([[rng.randint(-8, 8) / 4.0 for _ in range(n)]
                        for _ in range(T)])
        obs += np.sin(np.arange(T))[:, None] * np.arange(1, n + 1)[None, :]
        _, lat, lon = _grid(n, rng)
        return {"obs": obs, "lat": lat, "lon": lon, "thr": 0.4,
                "non_local": False, "winter": False}

    def build(self, spec):
        from pyunicorn.core.geo_grid import GeoGrid
        from pyunicorn.climate.climate_data import ClimateData
        g = GeoGrid(np.arange(len(spec["obs"])), spec["lat"], spec["lon"],
                    silence_level=3)
        data = ClimateData(spec["obs"].copy(), g, time_cycle=12,
                           silence_level=3)
        return self.cls()(data, threshold=spec["thr"],
                          non_local=spec["non_local"],
                          winter_only=spec["winter"], silence_level=3)

    def mutators(self):
        base = dict(ClimAdapter.mutators(self))

        def set_winter(o, s, rng):
            s["winter"] = not s["winter"]
            o.set_winter_only(s["winter"])
        return [("set_threshold", base["set_threshold"]),
                ("set_non_local", base["set_non_local"]),
                ("set_winter_only", set_winter)]


def _series(rng, n, dim=1):
    return np.array([[float(rng.randint(0, 6)) for _ in range(dim)]
                     for _ in range(n)])


class RPAdapter:
    name = "RecurrencePlot"

    def cls(self):
        from pyunicorn.timeseries.recurrence_plot import RecurrencePlot
        return RecurrencePlot

    def make(self, rng):
        return {"x": _series(rng, rng.randint(6, 14)),
                "kw": {"threshold": rng.choice([0.5, 1.5, 2.5])},
                "metric": "supremum",
                # sequential RQA: no matrix is stored, the line distributions
                # are computed from the embedding and the current threshold
                "sparse": rng.random() < 0.3}

    def build(self, spec):
        kw = dict(spec["kw"])
        if spec.get("sparse") and type(self).__name__ == "RPAdapter":
            kw["sparse_rqa"] = True
        return self.cls()(spec["x"].copy(), metric=spec["metric"],
                          silence_level=3, **kw)

    def mutators(self):
        def thr(o, s, rng):
            v = rng.choice([0.5, 1.5, 2.5, 3.5])
            s["kw"] = {"threshold": v}
            type(o).set_fixed_threshold(o, v)
        def thr_std(o, s, rng):
            v = rng.choice([0.25, 0.5, 1.0])
            s["kw"] = {"threshold_std": v}
            type(o).set_fixed_threshold_std(o, v)
        def rr(o, s, rng):
            v = rng.choice([0.1, 0.3, 0.5])
            s["kw"] = {"recurrence_rate": v}
            type(o).set_fixed_recurrence_rate(o, v)
        def lrr(o, s, rng):
            v = rng.choice([0.2, 0.4])
            s["kw"] = {"local_recurrence_rate": v}
            type(o).set_fixed_local_recurrence_rate(o, v)
        def ans(o, s, rng):
            v = rng.randint(1, 3)
            s["kw"] = {"adaptive_neighborhood_size": v}
            type(o).set_adaptive_neighborhood_size(o, v)
        def assign_thr(o, s, rng):
            # without a stored matrix the threshold attribute is the state
            if not getattr(o, "sparse_rqa", False):
                return False
            v = rng.choice([0.5, 1.5, 2.5, 3.5])
            s["kw"] = {"threshold": v}
            o.threshold = v
        return [("threshold (assigned)", assign_thr),
                ("set_fixed_threshold", thr),
                ("set_fixed_threshold_std", thr_std),
                ("set_fixed_recurrence_rate", rr),
                ("set_fixed_local_recurrence_rate", lrr),
                ("set_adaptive_neighborhood_size", ans)]

    def queries(self, obj):
        names = ["recurrence_matrix", "recurrence_rate", "vertline_dist",
                 "diagline_dist", "white_vertline_dist", "determinism",
                 "laminarity", "average_diaglength", "trapping_time",
                 "max_diaglength", "max_vertlength", "diag_entropy",
                 "mean_recurrence_time"]
        return [(n, (lambda o, n=n: getattr(o, n)())) for n in names
                if hasattr(obj, n)]


class RNAdapter(RPAdapter):
    name = "RecurrenceNetwork"

    def cls(self):
        from pyunicorn.timeseries.recurrence_network import RecurrenceNetwork
        return RecurrenceNetwork

    def mutators(self):
        def thr(o, s, rng):
            v = rng.choice([0.5, 1.5, 2.5, 3.5])
            s["kw"] = {"threshold": v}
            o.set_fixed_threshold(v)
        def thr_std(o, s, rng):
            v = rng.choice([0.25, 0.5, 1.0])
            s["kw"] = {"threshold_std": v}
            o.set_fixed_threshold_std(v)
        def rr(o, s, rng):
            v = rng.choice([0.1, 0.3, 0.5])
            s["kw"] = {"recurrence_rate": v}
            o.set_fixed_recurrence_rate(v)
        return [("set_fixed_threshold", thr),
                ("set_fixed_threshold_std", thr_std),
                ("set_fixed_recurrence_rate", rr)]

    def queries(self, obj):
        net = ["degree", "local_clustering", "transitivity", "closeness",
               "betweenness", "average_path_length", "nsi_degree",
               "path_lengths", "global_clustering", "coreness"]
        qs = RPAdapter.queries(self, obj)
        qs += [(n, (lambda o, n=n: getattr(o, n)())) for n in net]
        qs.append(("summary", lambda o: np.array(
            [o.N, o.n_links, o.link_density], dtype=float)))
        qs.append(("adjacency", lambda o: o.adjacency))
        return qs


class JRNAdapter:
    name = "JointRecurrenceNetwork"

    def cls(self):
        from pyunicorn.timeseries.joint_recurrence_network import \
            JointRecurrenceNetwork
        return JointRecurrenceNetwork

    def make(self, rng):
        n = rng.randint(6, 12)
        return {"x": _series(rng, n), "y": _series(rng, n),
                "kw": {"threshold": (1.5, 1.5)}}

    def build(self, spec):
        return self.cls()(spec["x"].copy(), spec["y"].copy(),
                          metric=("supremum", "supremum"), silence_level=3,
                          **spec["kw"])

    def mutators(self):
        def thr(o, s, rng):
            v = (rng.choice([0.5, 1.5, 2.5]), rng.choice([0.5, 1.5, 2.5]))
            s["kw"] = {"threshold": v}
            o.set_fixed_threshold(v)
        def rr(o, s, rng):
            v = (rng.choice([0.2, 0.4]), rng.choice([0.2, 0.4]))
            s["kw"] = {"recurrence_rate": v}
            o.set_fixed_recurrence_rate(v)
        return [("set_fixed_threshold", thr),
                ("set_fixed_recurrence_rate", rr)]

    def queries(self, obj):
        net = ["degree", "local_clustering", "transitivity",
               "average_path_length", "recurrence_matrix", "recurrence_rate"]
        qs = [(n, (lambda o, n=n: getattr(o, n)())) for n in net]
        qs.append(("summary", lambda o: np.array(
            [o.N, o.n_links, o.link_density], dtype=float)))
        qs.append(("adjacency", lambda o: o.adjacency))
        return qs


class JRPAdapter(JRNAdapter):
    """JointRecurrencePlot proper (no network counters behind it): JR has no
    counter of its own, the line-based RQA caches must follow the setters;
    identical series and a lag are the configuration where the two embeddings
    coincide"""
    name = "JointRecurrencePlot"

    def cls(self):
        from pyunicorn.timeseries.joint_recurrence_plot import \
            JointRecurrencePlot
        return JointRecurrencePlot

    def make(self, rng):
        n = rng.randint(8, 14)
        x = _series(rng, n)
        y = x.copy() if rng.random() < 0.5 else _series(rng, n)
        return {"x": x, "y": y, "lag": rng.choice([0, 0, 1, 2]),
                "kw": {"threshold": (1.5, 1.5)}}

    def build(self, spec):
        return self.cls()(spec["x"].copy(), spec["y"].copy(),
                          metric=("supremum", "supremum"), lag=spec["lag"],
                          silence_level=3, **spec["kw"])

    def mutators(self):
        def thr(o, s, rng):
            v = (rng.choice([0.5, 1.5, 2.5]), rng.choice([0.5, 1.5, 2.5]))
            s["kw"] = {"threshold": v}
            o.set_fixed_threshold(v)

        def rr(o, s, rng):
            v = (rng.choice([0.2, 0.4]), rng.choice([0.2, 0.4]))
            s["kw"] = {"recurrence_rate": v}
            o.set_fixed_recurrence_rate(v)

        def thr_std(o, s, rng):
            v = (rng.choice([0.25, 0.5, 1.0]), rng.choice([0.25, 0.5, 1.0]))
            s["kw"] = {"threshold_std": v}
            o.set_fixed_threshold_std(v)
        return [("set_fixed_threshold", thr),
                ("set_fixed_recurrence_rate", rr),
                ("set_fixed_threshold_std", thr_std)]

    def queries(self, obj):
        names = ["recurrence_matrix", "recurrence_rate", "vertline_dist",
                 "diagline_dist", "white_vertline_dist", "determinism",
                 "laminarity", "average_diaglength", "trapping_time",
                 "max_diaglength", "max_vertlength", "diag_entropy"]
        return [(n, (lambda o, n=n: getattr(o, n)())) for n in names
                if hasattr(obj, n)]


class ResAdapter:
    name = "ResNetwork"

    def cls(self):
        from pyunicorn.core.resistive_network import ResNetwork
        return ResNetwork

    def make(self, rng):
        while True:
            n = rng.randint(4, 6)
            A = graphs.random_graph(rng, n, 0.7, False)
            if graphs.connected(A):
                break
        return {"A": A, "R": self._res(rng, A)}

    @staticmethod
    def _res(rng, A):
        n = len(A)
        R = np.zeros((n, n))
        for i in range(n):
            for j in range(i):
                if A[i, j]:
                    R[i, j] = R[j, i] = rng.randint(1, 16) / 2.0
        return R

    def build(self, spec):
        return self.cls()(spec["R"].copy(), adjacency=spec["A"].copy(),
                          silence_level=3)

    def mutators(self):
        def upd(o, s, rng):
            s["R"] = self._res(rng, s["A"])
            o.update_resistances(s["R"].copy())
        def rewire(o, s, rng):
            # a new topology on the same nodes (links removed and added),
            # then the resistances of the new links
            n = len(s["A"])
            for _ in range(20):
                A = graphs.random_graph(rng, n, 0.5, False)
                if graphs.connected(A) and not np.array_equal(A, s["A"]):
                    break
            else:
                return False
            s["A"] = A
            s["R"] = self._res(rng, A)
            o.adjacency = A.copy()
            o.update_resistances(s["R"].copy())
        return [("update_resistances", upd),
                ("adjacency.setter + update_resistances", rewire)]

    def queries(self, obj):
        n = obj.N
        return [
            ("effective_resistance", lambda o: np.array(
                [[o.effective_resistance(i, j) for j in range(n)]
                 for i in range(n)])),
            ("average_effective_resistance",
             lambda o: o.average_effective_resistance()),
            ("diameter_effective_resistance",
             lambda o: o.diameter_effective_resistance()),
            ("admittive_degree", lambda o: o.admittive_degree()),
            ("vertex_current_flow_betweenness", lambda o: np.array(
                [o.vertex_current_flow_betweenness(i) for i in range(n)])),
            ("get_admittance", lambda o: o.get_admittance()),
            ("get_R", lambda o: o.get_R()),
        ]


class DataAdapter:
    name = "ClimateData"

    def cls(self):
        from pyunicorn.climate.climate_data import ClimateData
        return ClimateData

    def make(self, rng):
        n, T = rng.randint(3, 5), 20
        obs = np.array([[float(rng.randint(-9, 9)) for _ in range(n)]
                        for _ in range(T)])
        lat = np.array(sorted(rng.sample(range(-60, 61, 10), n)), float)
        lon = np.array(sorted(rng.sample(range(0, 180, 10), n)), float)
        return {"obs": obs, "lat": lat, "lon": lon, "window": None,
                "cycle": rng.choice([4, 5, 6])}

    def build(self, spec):
        from pyunicorn.core.geo_grid import GeoGrid
        g = GeoGrid(np.arange(len(spec["obs"]), dtype=float), spec["lat"],
                    spec["lon"], silence_level=3)
        return self.cls()(spec["obs"].copy(), g, time_cycle=spec["cycle"],
                          window=spec["window"], silence_level=3)

    def mutators(self):
        def win(o, s, rng):
            T = len(s["obs"])
            t0 = rng.randint(0, T // 2)
            t1 = rng.randint(t0 + 5, T - 1) if t0 + 5 <= T - 1 else T - 1
            lats, lons = sorted(s["lat"]), sorted(s["lon"])
            w = {"time_min": float(t0), "time_max": float(t1),
                 "lat_min": float(lats[0]), "lat_max": float(lats[-2]),
                 "lon_min": float(lons[0]), "lon_max": float(lons[-1])}
            s["window"] = w
            o.set_window(w)
        def glob(o, s, rng):
            s["window"] = None
            o.set_global_window()
        return [("set_window", win), ("set_global_window", glob)]

    def queries(self, obj):
        return [("observable", lambda o: o.observable()),
                ("phase_mean", lambda o: o.phase_mean()),
                ("anomaly", lambda o: o.anomaly()),
                ("phase_indices", lambda o: o.phase_indices()),
                ("lat", lambda o: o.grid.lat_sequence()),
                ("cos_lat", lambda o: o.grid.cos_lat()),
                ("angular_distance", lambda o: o.grid.angular_distance())]


class SurrAdapter:
    """Surrogates: the embedding and the memoised twins are derived from the
    data by twin_surrogates(); normalisation (directly or inside
    original_distribution / test_threshold_significance) replaces the data.
    Every query below draws first, so its value is a function of the current
    data and the draw parameters only."""
    name = "Surrogates"
    PARS = [(1, 1), (2, 1), (2, 2), (3, 1)]

    def cls(self):
        from pyunicorn.timeseries.surrogates import Surrogates
        return Surrogates

    def make(self, rng):
        N, T = rng.randint(1, 3), rng.randint(24, 40)
        g = np.random.default_rng(rng.randrange(2 ** 32))
        x = np.round(g.standard_normal((N, T)).cumsum(axis=1), 1) \
            + rng.choice([0.0, 5.0])
        return {"x": x, "normalized": False}

    def build(self, spec):
        o = self.cls()(spec["x"].copy(), silence_level=3)
        if spec["normalized"]:
            o.normalize_original_data()
        return o

    @staticmethod
    def _norm(s):
        s["normalized"] = True      # the twin normalises with the library

    def mutators(self):
        def norm(o, s, rng):
            o.normalize_original_data()
            self._norm(s)

        def dist(o, s, rng):
            self._norm(s)
            o.original_distribution(lambda a, b: np.corrcoef(a), n_bins=5)

        def draw(o, s, rng):
            d, tau = rng.choice(self.PARS)
            np.random.seed(rng.randrange(2 ** 31))
            o.twin_surrogates(d, tau, rng.choice([0.5, 1.0]), min_dist=3)

        def setemb(o, s, rng):
            d, tau = rng.choice(self.PARS)
            o.embedding = o.embed_time_series_array(o.original_data, d, tau)
        return [("normalize_original_data", norm),
                ("original_distribution", dist), ("twin_surrogates", draw),
                ("embedding.setter", setemb)]

    def queries(self, obj):
        def drawq(d, tau, what):
            def q(o):
                np.random.seed(12345)
                pyrandom.seed(12345)      # the twin walk draws from `random`
                sur = o.twin_surrogates(d, tau, 1.0, min_dist=3)
                if what == "embedding":
                    return np.asarray(o.embedding).copy()
                if what == "twins":
                    tw = o.twins(1.0, min_dist=3)
                    return np.array([([len(t)] + sorted(t)[:3] + [-1] * 3)[:4]
                                     for t in tw[0]], float)
                return np.asarray(sur).copy()
            return q
        qs = []
        for d, tau in self.PARS[:3]:
            for what in ("embedding", "twins", "surrogates"):
                qs.append((f"{what} after twin_surrogates({d},{tau})",
                           drawq(d, tau, what)))
        qs.append(("original_data_fft", lambda o: np.abs(
            o.original_data_fft())))
        return qs


ADAPTERS = [NetAdapter, GeoAdapter, ClimAdapter, TsonisAdapter, RPAdapter,
            RNAdapter, JRNAdapter, JRPAdapter, ResAdapter, DataAdapter,
            SurrAdapter]


# --------------------------------------------------------------------------

def arr(v):
    if hasattr(v, "toarray"):
        v = v.toarray()
    if isinstance(v, dict):
        v = [v[k] for k in sorted(v)]
    if isinstance(v, tuple):
        v = [np.asarray(x, float).ravel() for x in v]
        return np.concatenate(v) if v else np.array([])
    return np.asarray(v, dtype=float)


def equal(a, b, rtol=1e-9):
    try:
        a, b = arr(a), arr(b)
    except (TypeError, ValueError):
        return True
    if a.shape != b.shape:
        return False
    with np.errstate(invalid="ignore"):
        return bool(np.all((np.abs(a - b) <= rtol * (1 + np.abs(b)))
                           | (np.isnan(a) & np.isnan(b)) | (a == b)))


def run_all(obj, qs):
    out = {}
    for name, call in qs:
        try:
            out[name] = ("ok", call(obj))
        except Exception as e:
            out[name] = ("err", type(e).__name__)
    return out


def run_history(ctx, ad, hist_len):
    rng = ctx.rng
    spec = ad.make(rng)
    with warnings.catch_warnings():
        warnings.simplefilter("ignore")
        try:
            obj = ad.build(spec)
        except Exception as e:
            ctx.stat("build_failed_" + ad.name)
            return
        qs = ad.queries(obj)
        muts = ad.mutators()
        applied = []
        run_all(obj, qs)                 # populate every cache
        for _ in range(hist_len):
            mname, mfn = rng.choice(muts)
            try:
                r = mfn(obj, spec, rng)
            except Exception as e:
                ctx.stat(f"mutator_raises_{ad.name}.{mname}")
                return
            if r is False:
                continue
            applied.append(mname)
            # hand-rolled caches are filled by one query and read by another:
            # the order of the queries after the change matters
            order = list(qs)
            rng.shuffle(order)
            got = run_all(obj, order)
            try:
                twin = ad.build(spec)
            except Exception:
                ctx.stat("twin_failed_" + ad.name)
                return
            want = run_all(twin, qs)
            want2 = run_all(ad.build(spec), qs)
            for name, _ in qs:
                g, w, w2 = got[name], want[name], want2[name]
                if w[0] != "ok" or w2[0] != "ok" or \
                        not equal(w[1], w2[1]):
                    continue        # undefined / not reproducible on a twin
                bad = g[0] != "ok" or not equal(g[1], w[1])
                if bad:
                    ctx.violation(
                        f"{ad.name}.{name} after {mname}",
                        "value differs from a freshly constructed object",
                        {"class": ad.name, "history": list(applied),
                         "query": name,
                         "got": (arr(g[1]).tolist() if g[0] == "ok"
                                 else g[1]),
                         "fresh": arr(w[1]).tolist(),
                         "spec": {k: (v.tolist() if isinstance(
                             v, np.ndarray) else v)
                             for k, v in spec.items() if k != "attrs"}},
                        {"query": name, "mutator": mname})
        key = {"class": ad.name, "history": applied,
               "n": int(getattr(obj, "N", 0))}
        ctx.count({"k": key, "spec": str(sorted(
            (k, np.asarray(v).tolist() if isinstance(v, np.ndarray) else
             str(v)) for k, v in spec.items()))}, nontrivial=bool(applied))
        ctx.stat("class=" + ad.name)
        ctx.stat("history_len=%d" % len(applied))
        for m in applied:
            ctx.stat(f"mutator={m}")
        ctx.sample(key)


# --------------------------------------------------------------------------
# C: the generated tables against the running implementation
# --------------------------------------------------------------------------

def _tables():
    """parse coq/Gen/CacheFacts.v back (the same text Coq checked)"""
    import os
    import re
    from common import COQ
    txt = open(os.path.join(COQ, "Gen", "CacheFacts.v")).read()
    tabs = {}
    for m in re.finditer(r"Definition table_(\w+) : ctable := \{\|(.*?)\] \|\}\.",
                         txt, flags=re.S):
        body = m.group(2)
        meths = {mm.group(1): (re.findall(r'"([^"]*)"', mm.group(2)),
                               re.findall(r'"([^"]*)"', mm.group(3)))
                 for mm in re.finditer(
                     r'm_name := "([^"]+)"; m_key := \[([^\]]*)\]; '
                     r'm_reads := \[([^\]]*)\]', body)}
        muts = {mm.group(1): (re.findall(r'"([^"]*)"', mm.group(2)),
                              re.findall(r'"([^"]*)"', mm.group(3)))
                for mm in re.finditer(
                    r'mu_name := "([^"]+)"; mu_changed := \[([^\]]*)\]; '
                    r'mu_bumps := \[([^\]]*)\]', body)}
        tabs[m.group(1)] = (meths, muts)
    return tabs


def correspondence(ctx):
    """hit/miss behaviour predicted from the generated key / bump facts vs
    functools' own cache statistics, and observed attribute reads of cached
    methods vs the generated read sets."""
    tabs = _tables()
    checked = 0
    with warnings.catch_warnings():
        warnings.simplefilter("ignore")
        for AdC in ADAPTERS:
            ad = AdC()
            cls = ad.cls()
            if cls.__name__ not in tabs:
                continue
            meths, muts = tabs[cls.__name__]
            for rep in range(ctx.n(3, 12)):
                spec = ad.make(ctx.rng)
                try:
                    obj = ad.build(spec)
                except Exception:
                    continue
                for mname, mfn in ad.mutators():
                    if mname not in muts:
                        continue
                    changed, bumps = muts[mname]
                    for qname in list(meths)[:60]:
                        key, reads = meths[qname]
                        fn = getattr(cls, qname, None)
                        if fn is None or not hasattr(fn, "cache_info"):
                            continue
                        import inspect
                        params = list(inspect.signature(
                            fn.__wrapped__).parameters.values())[1:]
                        if any(p.default is inspect._empty for p in params):
                            continue
                        try:
                            getattr(obj, qname)()
                            h0 = fn.cache_info().hits
                            getattr(obj, qname)()
                            if fn.cache_info().hits != h0 + 1:
                                ctx.corr("repeat query is not a cache hit",
                                         [cls.__name__, qname], None)
                                continue
                            before = {k: _val(obj, k) for k in key}
                            if mfn(obj, spec, ctx.rng) is False:
                                continue
                            after = {k: _val(obj, k) for k in key}
                            h1 = fn.cache_info().hits
                            getattr(obj, qname)()
                            hit = fn.cache_info().hits == h1 + 1
                        except Exception:
                            continue
                        # prediction from the table: a bumped key counter or a
                        # changed key attribute forces a miss
                        # (a mutator may itself re-query, so a hit is no
                        # contradiction; the key itself must have moved)
                        must_miss = any(b in key for b in bumps)
                        if must_miss and before == after:
                            ctx.corr("table says the key changes, it did not",
                                     [cls.__name__, qname, mname], None)
                        if (not hit) and before == after and not must_miss:
                            ctx.corr("cache missed although no key field "
                                     "changed", [cls.__name__, qname, mname],
                                     None)
                        # counters named in the table really moved
                        for b in bumps:
                            if b in before and not (after[b] > before[b]):
                                ctx.corr("bumped counter did not increase",
                                         [cls.__name__, mname, b], None)
                        checked += 1
    ctx.traces += checked
    ctx.stats["c_hit_miss_checks"] = checked


def _val(obj, k):
    v = getattr(obj, k, None)
    try:
        hash(v)
        return v
    except TypeError:
        return id(v)


def search(ctx):
    ctx.stats["rule"] = (
        "histories: per class (Network, GeoNetwork, ClimateNetwork, "
        "TsonisClimateNetwork, RecurrencePlot, RecurrenceNetwork, "
        "JointRecurrenceNetwork, ResNetwork, ClimateData) random objects, "
        "all queries evaluated (caches populated), then 1-4 random public "
        "mutators; after each, every query is compared with two fresh twins "
        "built from the current primary inputs; non-trivial = at least one "
        "mutator applied; distinct by hash of (class, inputs, history)")
    for AdC in ADAPTERS:
        ad = AdC()
        for _ in range(ctx.n(14, 80)):
            run_history(ctx, ad, ctx.rng.randint(1, 4))


def replay(ctx, rep):
    # histories are regenerated from the seed recorded in the replay name
    search(ctx)
