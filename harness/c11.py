"""C11 — cross/internal measures of interacting networks match sub-blocks."""
import itertools
import warnings

import numpy as np

import graphs
from common import qlit, blit, listlit

MODELLED = [
    "core/_ext/numerics.pyx: _cross_transitivity, _cross_local_clustering",
    "InteractingNetworks.cross_adjacency / cross_degree / "
    "cross_local_clustering / cross_transitivity (sub-block indexing by node "
    "lists)",
]

HEADER = """From Coq Require Import QArith Qcanon Qabs List Bool Arith.
From PV.Model Require Import PairLoop Interacting.
Import ListNotations.
Definition close (m : Qc) (x : Q) : bool :=
  Qle_bool (Qabs (this m - x)) (1 # 1000000000)%Q.
Fixpoint all2 {A B} (f : A -> B -> bool) (l : list A) (l' : list B) : bool :=
  match l, l' with [], [] => true | a :: l, b :: l' => f a b && all2 f l l' | _, _ => false end.
(* adjacency, list1, list2, (transitivity, local clustering over list1, degrees over list1) *)
Definition check_cross (c : list (list bool) * list nat * list nat * (Q * list Q * list Q)) : bool :=
  let '(A, l1, l2, (tr, cl, deg)) := c in
  close (cross_transitivity (mfun A) l1 l2) tr &&
  all2 close (map (cross_local_clustering (mfun A) l2) l1) cl &&
  all2 close (map (cross_degree (mfun A) l2) l1) deg.
"""


HEADER_NSI = """From Coq Require Import QArith Qcanon Qabs List Bool Arith.
From PV.Model Require Import PairLoop Interacting NsiKernels.
Import ListNotations.
Definition close (m : Qc) (x : Q) : bool :=
  Qle_bool (Qabs (this m - x)) ((1 # 1000000000) * (1 + Qabs x))%Q.
Fixpoint all2 {A B} (f : A -> B -> bool) (l : list A) (l' : list B) : bool :=
  match l, l' with [], [] => true | a :: l, b :: l' => f a b && all2 f l l' | _, _ => false end.
(* A+ = A + Id, node weights, list1, list2,
   (n.s.i. cross transitivity, n.s.i. cross local clustering and n.s.i. cross
   degree over list1) *)
Definition check_nsi (c : list (list bool) * list Q * list nat * list nat * (Q * list Q * list Q)) : bool :=
  let '(Ap, w, l1, l2, (tr, cl, deg)) := c in
  let wf := fun i => Q2Qc (nth i w 0%Q) in
  close (k_nsi_cross_transitivity (mfun Ap) wf l1 l2) tr &&
  all2 close (map (k_nsi_cross_local_clustering (mfun Ap) wf l2) l1) cl &&
  all2 close (map (k_nsi_cross_degree (mfun Ap) wf l2) l1) deg.
"""


TRANSLATORS = [('pyx_cross', 'CrossK')]


def theorems(ctx):
    ctx.modelled += MODELLED
    ctx.generate(TRANSLATORS)
    ctx.theorems()
    if ctx.tier == "thorough":
        ctx.coqchk()


def partitions(ctx, n):
    """ordered pairs of disjoint non-empty lists in arbitrary order"""
    rng = ctx.rng
    out = []
    if n <= (6 if ctx.tier == "thorough" else 4):
        for mask in itertools.product([0, 1], repeat=n):
            l1 = [i for i in range(n) if mask[i]]
            l2 = [i for i in range(n) if not mask[i]]
            if l1 and l2:
                rng.shuffle(l1)
                rng.shuffle(l2)
                out.append((l1, l2))
    else:
        for _ in range(3):
            p = list(range(n))
            rng.shuffle(p)
            k1 = rng.randint(1, n - 1)
            k2 = rng.randint(1, n - k1)
            out.append((p[:k1], p[k1:k1 + k2]))
    return out


def gen(ctx):
    rng = ctx.rng
    gs = []
    for n in (2, 3):
        for A in graphs.all_graphs(n, False):
            gs.append((A, False))
    if ctx.tier == "thorough":
        for A in graphs.all_graphs(4, False):
            gs.append((A, False))
    for _ in range(ctx.n(25, 200)):
        n = rng.randint(4, 9)
        d = rng.random() < 0.3
        gs.append((graphs.random_graph(rng, n, 0.2 + 0.6 * rng.random(), d), d))
    for _ in range(ctx.n(6, 30)):
        A, _ = graphs.family(rng, rng.randint(4, 8))
        gs.append((A, False))
    return gs


def nl(xs):
    return listlit([f"{int(v)}%nat" for v in xs])


def ql(xs):
    return listlit([qlit(float(v)) for v in xs])


def bm(A):
    return listlit([listlit([blit(bool(v)) for v in r]) for r in A])


def correspondence(ctx):
    from pyunicorn.core.interacting_networks import InteractingNetworks
    gs = gen(ctx)
    ctx._gs = gs
    terms, meta = [], []
    with warnings.catch_warnings():
        warnings.simplefilter("ignore")
        for A, d in gs:
            if d:
                continue
            net = InteractingNetworks(adjacency=A, silence_level=3)
            for l1, l2 in partitions(ctx, len(A))[:6]:
                tr = net.cross_transitivity(l1, l2)
                cl = net.cross_local_clustering(l1, l2)
                dg = net.cross_degree(l1, l2)
                terms.append(f"({bm(A)}, {nl(l1)}, {nl(l2)}, "
                             f"({qlit(float(tr))}, {ql(cl)}, {ql(dg)}))")
                meta.append({"A": np.asarray(A).tolist(), "l1": l1, "l2": l2})
    fails = ctx.coq_failing("c11_cross", HEADER, terms, "check_cross",
                            chunk=200)
    for i in fails or []:
        ctx.corr("cross-clustering model != implementation", meta[i], None)
    ctx.traces += len(terms)
    ctx.stats["c_cross"] = len(terms)
    # the n.s.i. kernels (Model/NsiKernels.v) with dyadic node weights
    terms, meta = [], []
    with warnings.catch_warnings():
        warnings.simplefilter("ignore")
        for A, d in gs:
            if d or len(A) > 7:
                continue
            A = np.asarray(A)
            n = len(A)
            w = np.array(graphs.weights(ctx.rng, n))
            net = InteractingNetworks(adjacency=A, node_weights=w,
                                      silence_level=3)
            Ap = (A + np.eye(n, dtype=int)) > 0
            for l1, l2 in partitions(ctx, n)[:3]:
                try:
                    tr = float(net.nsi_cross_transitivity(l1, l2))
                    cl = np.asarray(net.nsi_cross_local_clustering(l1, l2),
                                    float)
                    dg = np.asarray(net.nsi_cross_degree(l1, l2), float)
                except Exception:
                    ctx.stat("nsi kernel raises")
                    continue
                if not (np.isfinite(tr) and np.all(np.isfinite(cl))):
                    ctx.stat("nsi kernel: 0/0 (no cross link)")
                    continue
                terms.append(f"({bm(Ap)}, {ql(w)}, {nl(l1)}, {nl(l2)}, "
                             f"({qlit(tr)}, {ql(cl)}, {ql(dg)}))")
                meta.append({"A": A.tolist(), "w": w.tolist(), "l1": l1,
                             "l2": l2})
    fails = ctx.coq_failing("c11_nsi", HEADER_NSI, terms, "check_nsi",
                            chunk=100)
    for i in fails or []:
        ctx.corr("n.s.i. cross kernel model != implementation", meta[i],
                 None)
    ctx.traces += len(terms)
    ctx.stats["c_nsi_kernels"] = len(terms)


# --------------------------------------------------------------------------
# P: NumPy definitions on sub-blocks
# --------------------------------------------------------------------------

def same(a, b, rtol=1e-9):
    a, b = np.asarray(a, float), np.asarray(b, float)
    if a.shape != b.shape:
        return False
    with np.errstate(invalid="ignore"):
        return bool(np.all((np.abs(a - b) <= rtol * (1 + np.abs(b)))
                           | (np.isnan(a) & np.isnan(b)) | (a == b)))


def defs(A, W, D, DW, l1, l2, directed, N):
    """definitions evaluated directly on sub-blocks"""
    B = A[np.ix_(l1, l2)]
    Bi = A[np.ix_(l1, l1)]
    n1, n2 = len(l1), len(l2)
    out = {}
    out["cross_adjacency"] = B
    out["internal_adjacency"] = Bi
    out["cross_link_attribute"] = W[np.ix_(l1, l2)]
    out["internal_link_attribute"] = W[np.ix_(l1, l1)]
    out["cross_path_lengths"] = D[np.ix_(l1, l2)]
    out["internal_path_lengths"] = D[np.ix_(l1, l1)]
    out["cross_path_lengths_w"] = DW[np.ix_(l1, l2)]
    if not directed:
        out["number_cross_links"] = B.sum()
        out["cross_link_density"] = B.sum() / float(n1 * n2)
    out["number_internal_links"] = Bi.sum() if directed else Bi.sum() // 2
    if n1 > 1:
        out["internal_link_density"] = Bi.sum() / float(n1 * (n1 - 1))
    cin = A[np.ix_(l2, l1)].sum(axis=0)
    cout = B.sum(axis=1)
    out["cross_indegree"] = cin
    out["cross_outdegree"] = cout
    out["cross_degree"] = cin + cout if directed else cout
    out["cross_indegree_w"] = W[np.ix_(l2, l1)].sum(axis=0)
    out["cross_outdegree_w"] = W[np.ix_(l1, l2)].sum(axis=1)
    out["cross_degree_w"] = (out["cross_indegree_w"] + out["cross_outdegree_w"]
                             if directed else out["cross_outdegree_w"])
    out["total_cross_degree"] = out["cross_degree"].mean()
    out["cross_degree_density"] = out["cross_degree"] / float(n2)
    out["internal_indegree"] = Bi.sum(axis=0)
    out["internal_outdegree"] = Bi.sum(axis=1)
    out["internal_degree"] = Bi.sum(axis=0) + Bi.sum(axis=1) if directed \
        else Bi.sum(axis=1)
    if not directed:
        # clustering: triangles through v with both other corners in l2
        cl = np.zeros(n1)
        tri_tot, trp_tot = 0, 0
        for a, v in enumerate(l1):
            nb = [u for u in l2 if A[v, u]]
            k = len(nb)
            tri = sum(1 for x in range(k) for y in range(x)
                      if A[nb[x], nb[y]])
            trp = k * (k - 1) // 2
            cl[a] = tri / trp if trp else 0.0
            tri_tot += tri
            trp_tot += trp
        out["cross_local_clustering"] = cl
        out["cross_global_clustering"] = cl.mean()
        out["cross_transitivity"] = tri_tot / trp_tot if trp_tot else 0.0
    # path based
    for nm, DD in (("", D), ("_w", DW)):
        P = DD[np.ix_(l1, l2)]
        fin = np.isfinite(P)
        if fin.any():
            out["cross_average_path_length" + nm] = P[fin].sum() / fin.sum()
        Pc = np.where(fin, P, N - 1)
        s = Pc.sum(axis=1)
        out["cross_closeness" + nm] = np.where(s != 0, n2 / np.where(
            s != 0, s, 1), 0.0)
    Pi = D[np.ix_(l1, l1)]
    off = ~np.eye(n1, dtype=bool)
    fin = np.isfinite(Pi) & off
    if fin.any():
        out["internal_average_path_length"] = Pi[fin].sum() / fin.sum()
    Pc = np.where(np.isfinite(Pi), Pi, n1 - 1)
    s = Pc.sum(axis=1)
    out["internal_closeness"] = np.where(s != 0, (n1 - 1) / np.where(
        s != 0, s, 1), 0.0)
    # link lengths from a link attribute (zero-length links included): the
    # mean over the connected pairs of distinct nodes, whatever their length
    Piw = DW[np.ix_(l1, l1)]
    finw = np.isfinite(Piw) & off
    if finw.any():
        out["internal_average_path_length_w"] = Piw[finw].sum() / finw.sum()
    return out


CALLS = {
    "cross_adjacency": lambda n, a, b: n.cross_adjacency(a, b),
    "internal_adjacency": lambda n, a, b: n.internal_adjacency(a),
    "cross_link_attribute": lambda n, a, b: n.cross_link_attribute("lw", a, b),
    "internal_link_attribute":
        lambda n, a, b: n.internal_link_attribute("lw", a),
    "cross_path_lengths": lambda n, a, b: n.cross_path_lengths(a, b),
    "internal_path_lengths": lambda n, a, b: n.internal_path_lengths(a),
    "cross_path_lengths_w": lambda n, a, b: n.cross_path_lengths(a, b, "lw"),
    "number_cross_links": lambda n, a, b: n.number_cross_links(a, b),
    "cross_link_density": lambda n, a, b: n.cross_link_density(a, b),
    "number_internal_links": lambda n, a, b: n.number_internal_links(a),
    "internal_link_density": lambda n, a, b: n.internal_link_density(a),
    "cross_indegree": lambda n, a, b: n.cross_indegree(a, b),
    "cross_outdegree": lambda n, a, b: n.cross_outdegree(a, b),
    "cross_degree": lambda n, a, b: n.cross_degree(a, b),
    "cross_indegree_w": lambda n, a, b: n.cross_indegree(a, b, "lw"),
    "cross_outdegree_w": lambda n, a, b: n.cross_outdegree(a, b, "lw"),
    "cross_degree_w": lambda n, a, b: n.cross_degree(a, b, "lw"),
    "total_cross_degree": lambda n, a, b: n.total_cross_degree(a, b),
    "cross_degree_density": lambda n, a, b: n.cross_degree_density(a, b),
    "internal_indegree": lambda n, a, b: n.internal_indegree(a),
    "internal_outdegree": lambda n, a, b: n.internal_outdegree(a),
    "internal_degree": lambda n, a, b: n.internal_degree(a),
    "cross_local_clustering":
        lambda n, a, b: n.cross_local_clustering(a, b),
    "cross_global_clustering":
        lambda n, a, b: n.cross_global_clustering(a, b),
    "cross_transitivity": lambda n, a, b: n.cross_transitivity(a, b),
    "cross_average_path_length":
        lambda n, a, b: n.cross_average_path_length(a, b),
    "cross_average_path_length_w":
        lambda n, a, b: n.cross_average_path_length(a, b, "lw"),
    "cross_closeness": lambda n, a, b: n.cross_closeness(a, b),
    "cross_closeness_w": lambda n, a, b: n.cross_closeness(a, b, "lw"),
    "internal_average_path_length":
        lambda n, a, b: n.internal_average_path_length(a),
    "internal_average_path_length_w":
        lambda n, a, b: n.internal_average_path_length(a, "lw"),
    "internal_closeness": lambda n, a, b: n.internal_closeness(a),
}
TWINS = [("cross_transitivity", "cross_transitivity_sparse"),
         ("cross_local_clustering", "cross_local_clustering_sparse"),
         ("cross_global_clustering", "cross_global_clustering_sparse"),
         ("cross_adjacency", "cross_adjacency_sparse")]
SYMMETRIC = ["number_cross_links", "cross_link_density",
             "cross_average_path_length"]


def check_graph(ctx, A, directed):
    from pyunicorn.core.interacting_networks import InteractingNetworks
    A = np.asarray(A)
    n = len(A)
    key = {"A": A.tolist(), "directed": directed}
    ctx.count(key, nontrivial=A.sum() > 0)
    ctx.stat("n=%d" % n)
    ctx.stat("directed=%s" % directed)
    with warnings.catch_warnings():
        warnings.simplefilter("ignore")
        net = InteractingNetworks(adjacency=A, directed=directed,
                                  silence_level=3)
        has = A.sum() > 0
        W = np.zeros((n, n))
        if has:
            W = graphs.attr_matrix(ctx.rng, A, symmetric=not directed)
            # zero-length links are legal link attributes
            if ctx.rng.random() < 0.3:
                i, j = (int(v) for v in np.argwhere(A)[0])
                W[i, j] = 0.0
                if not directed:
                    W[j, i] = 0.0
            net.set_link_attribute("lw", W)
        # reference distances from an object of their own (copies)
        ref_net = InteractingNetworks(adjacency=A, directed=directed,
                                      silence_level=3)
        if has:
            ref_net.set_link_attribute("lw", W)
        D = np.array(ref_net.path_lengths(), dtype=float)
        DW = np.array(ref_net.path_lengths("lw"), dtype=float) if has else D
        for l1, l2 in partitions(ctx, n):
            want = defs(A, W, D, DW, l1, l2, directed, n)
            k2 = dict(key, l1=l1, l2=l2)
            # the n.s.i. path measures read the same memoised matrices: they
            # run first, the sub-block measures below must not notice
            for nm in ("nsi_cross_closeness_centrality",
                       "nsi_cross_average_path_length"):
                try:
                    with np.errstate(all="ignore"):
                        getattr(net, nm)(list(l1), list(l2))
                except Exception:
                    ctx.stat("raises_" + nm)
            try:
                with np.errstate(all="ignore"):
                    net.nsi_internal_closeness_centrality(list(l1))
            except Exception:
                ctx.stat("raises_nsi_internal_closeness_centrality")
            Pnow = np.asarray(net.path_lengths(), float)
            if not np.array_equal(Pnow, D):
                ctx.violation("InteractingNetworks.path_lengths",
                              "the sub-blocks of the path-length matrix are "
                              "no longer the shortest-path lengths after the "
                              "n.s.i. cross / internal closeness measures ran",
                              dict(k2, got=Pnow.tolist(), want=D.tolist()),
                              {"history": True})
                break
            for name, call in CALLS.items():
                if name not in want:
                    continue
                if name.endswith("_w") or "link_attribute" in name:
                    if not has:
                        continue
                try:
                    got = call(net, list(l1), list(l2))
                except Exception as e:
                    ctx.stat("raises_" + name)
                    continue
                if hasattr(got, "toarray"):
                    got = got.toarray()
                if not same(got, want[name]):
                    ctx.violation(
                        f"InteractingNetworks.{name}",
                        "differs from the definition on the sub-blocks",
                        dict(k2, got=np.asarray(got, float).tolist(),
                             want=np.asarray(want[name], float).tolist(),
                             W=W.tolist() if "_w" in name or "attribute"
                             in name else None),
                        {"directed": directed})
            if not directed:
                for a, b in TWINS:
                    try:
                        x = getattr(net, a)(list(l1), list(l2))
                        y = getattr(net, b)(list(l1), list(l2))
                    except Exception:
                        ctx.stat("twin_raises_" + b)
                        continue
                    if isinstance(y, dict):
                        Y = np.zeros(np.asarray(x).shape)
                        for (i, j), v in y.items():
                            Y[i, j] = v
                        y = Y
                    if hasattr(y, "toarray"):
                        y = y.toarray()
                    if not same(x, y):
                        ctx.violation(f"InteractingNetworks.{b}",
                                      f"disagrees with {a}",
                                      dict(k2, compiled=np.asarray(
                                          x, float).tolist(),
                                          sparse=np.asarray(
                                              y, float).tolist()), {})
                for name in SYMMETRIC:
                    try:
                        x = CALLS[name](net, list(l1), list(l2))
                        y = CALLS[name](net, list(l2), list(l1))
                    except Exception:
                        continue
                    if not same(x, y):
                        ctx.violation(f"InteractingNetworks.{name}",
                                      "differs for the two argument orders",
                                      dict(k2, xy=float(x), yx=float(y)), {})
        # whole-network limit
        V = list(range(n))
        if not directed and n >= 2:
            lim = [("internal_link_density", lambda: net.internal_link_density(V),
                    lambda: net.link_density),
                   ("cross_transitivity(V,V)",
                    lambda: net.cross_transitivity(V, V),
                    lambda: net.transitivity()),
                   ("cross_local_clustering(V,V)",
                    lambda: net.cross_local_clustering(V, V),
                    lambda: net.local_clustering()),
                   ("internal_average_path_length(V)",
                    lambda: net.internal_average_path_length(V),
                    lambda: net.average_path_length())]
            # ... and of the n.s.i. measures (node weights drawn at random):
            # with both groups equal to the whole node set a node is its own
            # neighbour in A+ on both sides
            wv = np.array(graphs.weights(ctx.rng, n))
            netw = InteractingNetworks(adjacency=A, directed=False,
                                       node_weights=wv, silence_level=3)
            lim += [("nsi_cross_degree(V,V)",
                     lambda: netw.nsi_cross_degree(V, V),
                     lambda: netw.nsi_degree()),
                    ("nsi_internal_degree(V)",
                     lambda: netw.nsi_internal_degree(V),
                     lambda: netw.nsi_degree()),
                    ("nsi_cross_transitivity(V,V)",
                     lambda: netw.nsi_cross_transitivity(V, V),
                     lambda: netw.nsi_transitivity()),
                    ("nsi_cross_local_clustering(V,V)",
                     lambda: netw.nsi_cross_local_clustering(V, V),
                     lambda: netw.nsi_local_clustering()),
                    ("nsi_cross_global_clustering(V,V)",
                     lambda: netw.nsi_cross_global_clustering(V, V),
                     lambda: netw.nsi_global_clustering())]
            for name, f, g in lim:
                try:
                    x, y = f(), g()
                except Exception:
                    continue
                if np.any(np.isnan(np.asarray(y, float))):
                    continue
                if not same(x, y):
                    ctx.violation(f"InteractingNetworks.{name}",
                                  "does not reproduce the single-network "
                                  "measure on the whole node set",
                                  dict(key, got=np.asarray(x, float).tolist(),
                                       whole=np.asarray(y, float).tolist(),
                                       w=wv.tolist()),
                                  {})
    ctx.sample({"n": n, "directed": directed})


def search(ctx):
    ctx.stats["rule"] = (
        "graphs: all undirected on 2-3 (quick) / 2-4 (thorough) nodes, random "
        "G(n,p) n=4..9 (30% directed), families; link attributes incl. "
        "zero-length links; all ordered bipartitions into two non-empty "
        "lists in shuffled order for n<=4 (quick) / 6 (thorough), 3 random "
        "pairs of disjoint lists beyond; 31 methods against NumPy "
        "definitions, compiled-vs-sparse twins, argument-order symmetry, "
        "whole-network limit; non-trivial = at least one link; distinct by "
        "hash of (A, directed)")
    gs = getattr(ctx, "_gs", None)
    if gs is None or ctx.scale > 1:
        gs = gen(ctx)
    for A, d in gs:
        check_graph(ctx, A, d)


def replay(ctx, rep):
    c = rep["case"]
    check_graph(ctx, np.array(c["A"]), c.get("directed", False))
