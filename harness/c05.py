"""C05 — all representations of a network agree, and survive save/load."""
import os
import shutil
import tempfile
import warnings

import numpy as np
import scipy.sparse as sp

import graphs
from common import blit, listlit

TRANSLATORS = [("py_file_attrs", "FileAttrs")]
MODELLED = [
    "Network.save / Load, SpatialNetwork / GeoNetwork / ClimateNetwork.Load: "
    "the vertex-attribute name the node weights travel under (regenerated "
    "from the source), igraph's GML key rule, the alias repair",
    "Network.adjacency setter (N, n_links, link_density), set_edge_list, "
    "FromIGraph (symmetrise, one link per listed pair), node_weights setter "
    "(total / mean node weight)",
]

HEADER = """From Coq Require Import QArith List Bool Arith.
From PV.Model Require Import Reps.
Import ListNotations.
Fixpoint eqlb (a b : list bool) : bool :=
  match a, b with [], [] => true | x :: a', y :: b' => Bool.eqb x y && eqlb a' b' | _, _ => false end.
Fixpoint eqmb (a b : list (list bool)) : bool :=
  match a, b with [], [] => true | x :: a', y :: b' => eqlb x y && eqmb a' b' | _, _ => false end.
(* n, directed, edge list given to set_edge_list, resulting adjacency, n_links *)
Definition check_edges (c : nat * bool * list (nat*nat) * list (list bool) * nat) : bool :=
  let '(n, d, E, A, nl) := c in
  eqmb (mlist n (of_edges d E)) A && Nat.eqb (n_links n d (of_edges d E)) nl.
(* n, directed, adjacency, edge list reported by the object *)
Definition check_roundtrip (c : nat * bool * list (list bool)) : bool :=
  let '(n, d, A) := c in
  eqmb (mlist n (of_edges d (edges_of n d (mfun A)))) A.
"""


def theorems(ctx):
    ctx.modelled += MODELLED
    ctx.generate(TRANSLATORS)
    ctx.theorems()
    if ctx.tier == "thorough":
        ctx.coqchk()


def gen(ctx):
    rng = ctx.rng
    gs = []
    for n in (1, 2, 3):
        for A in graphs.all_graphs(n, False):
            gs.append((A, False))
    for n in (1, 2):
        for A in graphs.all_graphs(n, True):
            gs.append((A, True))
    if ctx.tier == "thorough":
        for A in graphs.all_graphs(4, False):
            gs.append((A, False))
        for A in graphs.all_graphs(3, True):
            gs.append((A, True))
    for _ in range(ctx.n(30, 250)):
        n = rng.randint(2, 10)
        d = rng.random() < 0.4
        p = rng.choice([0.0, 0.1, 0.5, 1.0, rng.random()])
        gs.append((graphs.random_graph(rng, n, p, d), d))
    for _ in range(ctx.n(8, 40)):
        A, _ = graphs.family(rng, rng.randint(2, 8))
        gs.append((A, False))
    return gs


def bm(A):
    return listlit([listlit([blit(bool(v)) for v in r]) for r in A])


def el(E):
    return listlit([f"({int(a)}%nat, {int(b)}%nat)" for a, b in E])


def summary(net):
    A = np.asarray(net.adjacency)
    return {"N": int(net.N), "n_links": int(net.n_links),
            "link_density": float(net.link_density), "A": A.astype(int),
            "sp_A": np.asarray(net.sp_A.toarray()).astype(int),
            "graph": sorted(tuple(sorted(e)) if not net.directed else tuple(e)
                            for e in net.graph.get_edgelist()),
            "w": np.asarray(net.node_weights, float),
            "total": float(net.total_node_weight),
            "mean": float(net.mean_node_weight)}


def expect(A, w, directed):
    n = len(A)
    nnz = int(A.sum())
    E = sorted((i, j) for i in range(n) for j in range(n)
               if A[i, j] and (directed or i < j))
    return {"N": n, "n_links": nnz if directed else nnz // 2,
            "link_density": nnz / float(n * (n - 1)) if n > 1 else 0.0,
            "A": A, "sp_A": A, "graph": E, "w": np.asarray(w, float),
            "total": float(np.sum(w)), "mean": float(np.mean(w))}


def diff(got, want):
    bad = []
    for k, v in want.items():
        g = got[k]
        if isinstance(v, np.ndarray):
            ok = np.asarray(g).shape == v.shape and np.allclose(g, v)
        elif isinstance(v, float):
            ok = abs(g - v) <= 1e-12 * (1 + abs(v))
        else:
            ok = g == v
        if not ok:
            bad.append(k)
    return bad


def check_graph(ctx, A, directed, terms=None):
    import igraph
    from pyunicorn.core.network import Network
    rng = ctx.rng
    A = np.asarray(A)
    n = len(A)
    w = np.array(graphs.weights(rng, n))
    key = {"A": A.tolist(), "directed": directed, "w": w.tolist()}
    ctx.count(key, nontrivial=n >= 2)
    ctx.stat("n=%d" % min(n, 10))
    ctx.stat("links=%s" % ("0" if A.sum() == 0 else
                           "1" if A.sum() <= 2 else "many"))
    want = expect(A, w, directed)
    E = want["graph"]
    has = A.sum() > 0
    W = graphs.attr_matrix(rng, A, symmetric=not directed,
                           signed=True) if has else None
    paths = {}
    with warnings.catch_warnings():
        warnings.simplefilter("ignore")
        def mk(adj=None, **kw):
            return Network(adjacency=adj, directed=directed,
                           node_weights=w.copy(), silence_level=3, **kw)
        builders = {
            "dense list": lambda: mk(A.tolist()),
            "ndarray": lambda: mk(A.copy()),
            "csr": lambda: mk(sp.csr_matrix(A)),
            "csc": lambda: mk(sp.csc_matrix(A)),
            "coo": lambda: mk(sp.coo_matrix(A)),
            "lil": lambda: mk(sp.lil_matrix(A)),
            "csr with stored zeros": lambda: mk(_stored_zeros(A)),
            "edge list": lambda: Network(
                edge_list=E, n_nodes=n, directed=directed,
                node_weights=w.copy(), silence_level=3),
            "edge list with repeats": lambda: Network(
                edge_list=E + E[:1] + [(b, a) for a, b in E[:1]
                                       if not directed],
                n_nodes=n, directed=directed, node_weights=w.copy(),
                silence_level=3) if E else None,
        }
        def from_igraph():
            g = igraph.Graph(n=n, edges=_shuffled(E, rng), directed=directed)
            g.vs["node_weight_nsi"] = list(w)
            return Network.FromIGraph(g, silence_level=3)
        builders["igraph"] = from_igraph
        builders["copy"] = lambda: mk(A.copy()).copy()
        for name, b in builders.items():
            try:
                net = b()
            except Exception as e:
                ctx.violation(f"Network via {name}", "raises",
                              dict(key, err=f"{type(e).__name__}: {e}"),
                              {"kind": "exception", "edgeless": not has,
                               "single_node": n == 1})
                continue
            if net is None:
                continue
            paths[name] = net
            bad = diff(summary(net), want)
            if bad:
                ctx.violation(f"Network via {name}",
                              "disagrees with the input: " + ", ".join(bad),
                              dict(key, fields=bad),
                              {"edgeless": not has, "single_node": n == 1})
        # the network owns its weights: neither the caller's vector nor a
        # copy's weights may be the same array
        try:
            w_in = w.astype(float).copy()
            net0 = Network(adjacency=A.copy(), directed=directed,
                           node_weights=w_in, silence_level=3)
            cp0 = net0.copy()
            w_in *= 2.0
            ok = np.allclose(np.asarray(net0.node_weights, float), w) and \
                abs(net0.total_node_weight - w.sum()) < 1e-9
            nw = net0.node_weights
            nw += 1.0                       # in-place edit of the original
            ok2 = np.allclose(np.asarray(cp0.node_weights, float), w) and \
                abs(cp0.total_node_weight - w.sum()) < 1e-9 and \
                abs(cp0.mean_node_weight - w.mean()) < 1e-9
            ctx.evaluations += 1
            if not ok:
                ctx.violation("Network(node_weights=array)",
                              "the network's weights follow a later edit of "
                              "the caller's array", key, {"aliasing": True})
            elif not ok2:
                ctx.violation("Network.copy",
                              "the copy's weights follow a later in-place "
                              "edit of the original's weights", key,
                              {"aliasing": True})
        except Exception as e:
            ctx.violation("Network(node_weights=array)", "raises",
                          dict(key, err=f"{type(e).__name__}: {e}"),
                          {"kind": "exception"})
        # link attributes through copy / igraph / files
        base = paths.get("ndarray")
        if base is not None and has:
            base.set_link_attribute("lw", W)
            cp = base.copy()
            try:
                if not np.allclose(cp.link_attribute("lw"), W):
                    ctx.violation("Network.copy", "link attribute differs",
                                  key, {})
            except Exception as e:
                ctx.violation("Network.copy", "drops link attributes",
                              dict(key, err=f"{type(e).__name__}: {e}"), {})
            g = igraph.Graph(n=n, edges=_shuffled(E, rng), directed=directed)
            g.es["lw"] = [float(W[a, b]) for a, b in g.get_edgelist()]
            ig = Network.FromIGraph(g, silence_level=3)
            if not np.allclose(ig.link_attribute("lw"), W):
                ctx.violation("Network.FromIGraph",
                              "link attribute lands on the wrong links",
                              dict(key, W=W.tolist()), {})
        # save / load
        if base is not None and n >= 1:
            tmp = tempfile.mkdtemp(prefix="c05_", dir="/var/tmp")
            try:
                for fmt in ("graphml", "graphmlz", "pickle", "gml"):
                    fn = os.path.join(tmp, "net." + fmt)
                    try:
                        base.save(fn, fileformat=fmt)
                        ld = Network.Load(fn, fileformat=fmt, silence_level=3)
                    except Exception as e:
                        ctx.violation(f"Network.save/Load({fmt})", "raises",
                                      dict(key, err=f"{type(e).__name__}: "
                                           f"{e}"),
                                      {"kind": "exception",
                                       "edgeless": not has,
                                       "single_node": n == 1})
                        continue
                    bad = diff(summary(ld), want)
                    if bad:
                        ctx.violation(f"Network.save/Load({fmt})",
                                      "round trip changes: " + ", ".join(bad),
                                      dict(key, fields=bad),
                                      {"edgeless": not has})
                    if has:
                        try:
                            if not np.allclose(ld.link_attribute("lw"), W):
                                ctx.violation(
                                    f"Network.save/Load({fmt})",
                                    "link attribute changed", key, {})
                        except Exception as e:
                            ctx.violation(f"Network.save/Load({fmt})",
                                          "link attribute lost",
                                          dict(key, err=str(e)), {})
            finally:
                shutil.rmtree(tmp, ignore_errors=True)
        if terms is not None and n <= 8:
            net = paths.get("edge list with repeats") or paths.get("edge list")
            if net is not None and E:
                EE = E + E[:1] + ([(b, a) for a, b in E[:1]]
                                  if not directed else [])
                terms["edges"].append(
                    f"({n}%nat, {blit(directed)}, {el(EE)}, "
                    f"{bm(np.asarray(net.adjacency))}, "
                    f"{int(net.n_links)}%nat)")
                terms["edges_meta"].append(key)
            terms["rt"].append(f"({n}%nat, {blit(directed)}, {bm(A)})")
            terms["rt_meta"].append(key)
    ctx.sample({"n": n, "directed": directed, "links": int(A.sum())})


def _stored_zeros(A):
    S = sp.lil_matrix(A.astype(float) + np.eye(len(A)))
    S = S.tocsr()
    S.setdiag(0)              # zeros stay stored
    return S


def _shuffled(E, rng):
    E = list(E)
    rng.shuffle(E)
    return E


def geo_variants(ctx):
    from pyunicorn.core.geo_grid import GeoGrid
    from pyunicorn.core.geo_network import GeoNetwork
    rng = ctx.rng
    with warnings.catch_warnings():
        warnings.simplefilter("ignore")
        for _ in range(ctx.n(10, 60)):
            n = rng.randint(2, 7)
            A = graphs.random_graph(rng, n, rng.random())
            lat = np.array([float(rng.randrange(-80, 81, 5))
                            for _ in range(n)])
            lon = np.array([float(rng.randrange(-170, 171, 5))
                            for _ in range(n)])
            g = GeoGrid(np.arange(3), lat, lon, silence_level=3)
            for nwt in ("surface", "irrigation", None):
                net = GeoNetwork(g, adjacency=A, node_weight_type=nwt,
                                 silence_level=3)
                cw = np.cos(np.radians(lat.astype("float32").astype(float)))
                ww = {"surface": cw, "irrigation": cw ** 2,
                      None: np.ones(n)}[nwt]
                ctx.evaluations += 1
                key = {"A": A.tolist(), "lat": lat.tolist(),
                       "node_weight_type": nwt}
                try:
                    got = np.asarray(net.node_weights, float)
                    if not (np.allclose(got, ww, rtol=1e-6)
                            and abs(net.total_node_weight - got.sum()) < 1e-9
                            and abs(net.mean_node_weight - got.mean()) < 1e-9):
                        ctx.violation(
                            "GeoNetwork node weights",
                            "weights / total / mean are inconsistent",
                            dict(key, weights=got.tolist(),
                                 total=float(net.total_node_weight)), {})
                except Exception as e:
                    ctx.violation("GeoNetwork node weights", "raises",
                                  dict(key, err=f"{type(e).__name__}: {e}"),
                                  {})


def embedded_files(ctx):
    """save / Load of the embedded classes (network + grid [+ similarity])"""
    from pyunicorn.core.grid import Grid
    from pyunicorn.core.geo_grid import GeoGrid
    from pyunicorn.core.spatial_network import SpatialNetwork
    from pyunicorn.core.geo_network import GeoNetwork
    from pyunicorn.climate.climate_network import ClimateNetwork
    rng = ctx.rng
    with warnings.catch_warnings():
        warnings.simplefilter("ignore")
        for it in range(ctx.n(6, 40)):
            n = rng.randint(1, 7) if it else 1
            directed = rng.random() < 0.3
            A = np.array(graphs.random_graph(rng, n, rng.random(),
                                             directed=directed))
            if it == 1:
                A = np.zeros((n, n), int)
            w = np.array(graphs.weights(rng, n))
            if rng.random() < 0.35:
                w = np.ones(n)            # unit weights are weights too
            # a network that was saved before with other weights
            w_before = np.array(graphs.weights(rng, n)) \
                if rng.random() < 0.4 else None
            lat = np.array([float(rng.randrange(-80, 81, 5))
                            for _ in range(n)])
            lon = np.array([float(rng.randrange(-170, 171, 5))
                            for _ in range(n)])
            has = A.sum() > 0
            W = (graphs.attr_matrix(rng, A, symmetric=not directed,
                                    signed=True)
                 if has else None)
            want = expect(A, w, directed)
            sim = np.array([[rng.random() for _ in range(n)]
                            for _ in range(n)])
            sim = (sim + sim.T) / 2
            def spatial():
                g = Grid(np.arange(3), np.vstack([lat, lon]), silence_level=3)
                net = SpatialNetwork(g, adjacency=A.copy(),
                                     directed=directed, silence_level=3)
                net.node_weights = w
                return net, SpatialNetwork.Load, 2
            def geo():
                g = GeoGrid(np.arange(3), lat, lon, silence_level=3)
                net = GeoNetwork(g, adjacency=A.copy(), directed=directed,
                                 silence_level=3)
                net.node_weights = w
                return net, GeoNetwork.Load, 2
            def climate():
                g = GeoGrid(np.arange(3), lat, lon, silence_level=3)
                net = ClimateNetwork(g, sim.copy(), threshold=2.0,
                                     directed=directed, silence_level=3)
                net.adjacency = A.copy()
                net.node_weights = w
                return net, ClimateNetwork.Load, 3
            for cname, mk in (("SpatialNetwork", spatial),
                              ("GeoNetwork", geo),
                              ("ClimateNetwork", climate)):
                key = {"A": A.tolist(), "directed": directed,
                       "w": w.tolist(), "lat": lat.tolist(),
                       "lon": lon.tolist(), "class": cname,
                       "saved_before_with": None if w_before is None
                       else w_before.tolist()}
                tags = {"edgeless": not has, "single_node": n == 1,
                        "class": cname}
                tmp = tempfile.mkdtemp(prefix="c05_", dir="/var/tmp")
                try:
                    for fmt in ("graphml", "graphmlz", "pickle", "gml"):
                        ctx.evaluations += 1
                        ctx.stat("files:" + cname)
                        where = f"{cname}.save/Load({fmt})"
                        fns = [os.path.join(tmp, "net." + fmt),
                               os.path.join(tmp, "grid.pkl"),
                               os.path.join(tmp, "sim.npy")]
                        try:
                            net, load, k = mk()
                            if has:
                                net.set_link_attribute("lw", W)
                            if w_before is not None:
                                net.node_weights = w_before
                                net.save(tuple(f + ".old" for f in fns[:k]),
                                         fileformat=fmt)
                                net.node_weights = w
                            net.save(tuple(fns[:k]), fileformat=fmt)
                            ld = load(tuple(fns[:k]), fileformat=fmt,
                                      silence_level=3)
                        except Exception as e:
                            ctx.violation(where, "raises", dict(
                                key, err=f"{type(e).__name__}: {e}"),
                                dict(tags, kind="exception"))
                            continue
                        bad = diff(summary(ld), want)
                        if type(ld).__name__ != cname:
                            bad.append("class")
                        g0, g1 = net.grid, ld.grid
                        if not (np.allclose(g0.sequence(0), g1.sequence(0))
                                and np.allclose(g0.sequence(1),
                                                g1.sequence(1))
                                and g0.N == g1.N):
                            bad.append("grid")
                        if k == 3 and not np.allclose(
                                ld.similarity_measure(), sim):
                            bad.append("similarity")
                        if has:
                            try:
                                if not np.allclose(ld.link_attribute("lw"),
                                                   W):
                                    bad.append("link attribute")
                            except Exception:
                                bad.append("link attribute lost")
                        if bad:
                            ctx.violation(where, "round trip changes: "
                                          + ", ".join(bad),
                                          dict(key, fields=bad), tags)
                finally:
                    shutil.rmtree(tmp, ignore_errors=True)


GML_HEADER = """From Coq Require Import String List Bool.
From PV.Model Require Import Files.
Import ListNotations.
Open Scope string_scope.
"""


def gml_keys(ctx):
    """igraph's GML writer against the model's key rule (ASCII names)"""
    import igraph
    rng = ctx.rng
    names = ["node_weight_nsi", "lw", "a_b", "9ab", "a-b", "ab9", "_x",
             "A_B", "__", "a.b", "weight", "x_1_y", "Z9_"]
    alphabet = "abcXYZ019_-. "
    for _ in range(ctx.n(40, 400)):
        names.append("".join(rng.choice(alphabet)
                             for _ in range(rng.randint(1, 8))))
    names = [x for x in dict.fromkeys(names) if x.strip() == x]
    terms, meta = [], []
    tmp = tempfile.mkdtemp(prefix="c05_", dir="/var/tmp")
    try:
        for nm in names:
            g = igraph.Graph(n=2, edges=[(0, 1)])
            g.vs[nm] = [1.5, 2.5]
            g.es[nm] = [0.5]
            fn = os.path.join(tmp, "k.gml")
            with warnings.catch_warnings():
                warnings.simplefilter("ignore")
                try:
                    g.write(fn, format="gml")
                    h = igraph.Graph.Read(fn, format="gml")
                except Exception:
                    continue
            got = [x for x in h.vs.attribute_names() if x != "id"]
            if len(got) != 1 or h.es.attribute_names() != got:
                continue
            terms.append(f'("{nm}", "{got[0]}")')
            meta.append({"name": nm, "read_back": got[0]})
    finally:
        shutil.rmtree(tmp, ignore_errors=True)
    fails = ctx.coq_failing("c05_gml", GML_HEADER, terms, "check_gml",
                            chunk=500)
    for i in fails or []:
        ctx.corr("GML key model != igraph's writer", meta[i], None)
    ctx.traces += len(terms)
    ctx.stats["c_gml_keys"] = len(terms)


def correspondence(ctx):
    gml_keys(ctx)
    gs = gen(ctx)
    terms = {"edges": [], "edges_meta": [], "rt": [], "rt_meta": []}
    for A, d in gs:
        check_graph(ctx, A, d, terms)
    ctx._done = True
    for k, fn in (("edges", "check_edges"), ("rt", "check_roundtrip")):
        fails = ctx.coq_failing("c05_" + k, HEADER, terms[k], fn, chunk=200)
        for i in fails or []:
            ctx.corr(f"representation model != implementation ({k})",
                     terms[k + "_meta"][i], None)
        ctx.traces += len(terms[k])
        ctx.stats["c_" + k] = len(terms[k])


def search(ctx):
    ctx.stats["rule"] = (
        "graphs: all undirected on 1-3 (quick) / 1-4 (thorough) nodes, all "
        "directed on 1-2 / 1-3, random G(n,p) incl. p = 0 and 1, families; "
        "11 constructor paths (dense list, ndarray, csr, csc, coo, lil, csr "
        "with stored zeros, edge list, edge list with repeated / reversed "
        "entries, igraph with shuffled edge order, copy), link attributes "
        "through copy / igraph, save+Load in graphml / graphmlz / pickle / "
        "gml in a scratch directory, also for SpatialNetwork / GeoNetwork / ClimateNetwork with their grid and similarity files; GeoNetwork weight types; non-trivial = "
        "at least 2 nodes; distinct by hash of (A, directed, weights)")
    if not getattr(ctx, "_done", False) or ctx.scale > 1:
        for A, d in gen(ctx):
            check_graph(ctx, A, d)
    geo_variants(ctx)
    embedded_files(ctx)


def replay(ctx, rep):
    c = rep["case"]
    if "class" in c:
        embedded_files(ctx)
    elif "directed" in c:
        check_graph(ctx, np.array(c["A"]), c["directed"])
    else:
        geo_variants(ctx)
