"""C10 — similarity and coupling estimates equal reference statistics."""
import math
import warnings

import numpy as np

from common import qlit, listlit, zlit

TRANSLATORS = [("pyx_coupling", "CouplingK")]
MODELLED = [
    "funcnet/_ext/numerics.pyx: _cross_correlation_max, _cross_correlation_"
    "all, _symmetrize_by_absmax (slices multiplied, tie rule of the running "
    "maximum, lag stored, cell overwritten) — regenerated; LAG element width",
    "Pearson statistic in square-root-free form (symmetry, affine invariance)",
]

HEADER = """From Coq Require Import ZArith QArith Qabs List Bool Arith.
From PV.Model Require Import Coupling.
Import ListNotations.
Open Scope Q_scope.
"""
TOL = 2e-6


def theorems(ctx):
    ctx.modelled += MODELLED
    ctx.generate(TRANSLATORS)
    ctx.theorems()
    if ctx.tier == "thorough":
        ctx.coqchk()


# --------------------------------------------------------------------------
# data
# --------------------------------------------------------------------------

def dataset(rng, T=None, N=None, kind=None):
    T = T or rng.choice([3, 4, 5, 8, 12, 20, 40])
    N = N or rng.choice([2, 3, 4, 5])
    kind = kind or rng.choice(["gauss", "ar", "integer", "special", "offset"])
    g = np.random.default_rng(rng.randrange(2 ** 32))
    X = g.standard_normal((T, N))
    if kind == "ar":
        for t in range(1, T):
            X[t] += 0.7 * X[t - 1]
            X[t, 1:] += 0.5 * X[t - 1, :-1]
    elif kind == "integer":
        X = g.integers(-4, 5, size=(T, N)).astype(float)
    elif kind == "special":
        if N >= 2:
            X[:, 1] = X[:, 0]                       # duplicated
        if N >= 3:
            X[:, 2] = -2.5 * X[:, 0] + 1            # anti-correlated
        if N >= 4 and rng.random() < 0.5:
            X[:, 3] = 3.0                           # constant
    elif kind == "offset":
        X = X * 1e-2 + g.integers(100, 2000, size=(1, N))
    return X, kind


def corr(a, b):
    a = a - a.mean()
    b = b - b.mean()
    d = math.sqrt(float(a @ a) * float(b @ b))
    return float(a @ b) / d if d > 0 else 0.0


def ref_cc_all(X, tau_max):
    """entry [i,j,l] = corr(x_i(t-l), x_j(t)) over t = tau_max .. T-1"""
    T, N = X.shape
    out = np.zeros((N, N, tau_max + 1))
    for i in range(N):
        for j in range(N):
            for l in range(tau_max + 1):
                out[i, j, l] = corr(X[tau_max - l: T - l, i], X[tau_max:, j])
    return out


def degenerate(X, tau_max):
    """a window of some series is (nearly) constant: the statistic is undefined
    and float32 standardisation is ill-conditioned"""
    T, N = X.shape
    for l in range(tau_max + 1):
        w = X[tau_max - l: T - l]
        s = w.std(axis=0)
        if np.any(s <= 1e-6 * (1 + np.abs(w).max())):
            return True
    return False


# --------------------------------------------------------------------------
# CouplingAnalysis
# --------------------------------------------------------------------------

def check_cc(ctx, X, tau_max, kind, terms=None):
    from pyunicorn.funcnet import CouplingAnalysis
    from pyunicorn.core._ext.types import FIELD
    T, N = X.shape
    key = {"data": X.tolist(), "tau_max": tau_max}
    ctx.count(key, nontrivial=T >= 5 and N >= 2)
    ctx.stat("cc:" + kind)
    ctx.sample({"T": T, "N": N, "tau_max": tau_max, "data": kind})
    ctx.stat("tau_max=%d" % min(tau_max, 5))
    tags = {"data": kind, "tau_max_over_127": tau_max > 127}
    ca = CouplingAnalysis(X.copy(), silence_level=3)
    where = "CouplingAnalysis.cross_correlation"
    try:
        F = np.asarray(ca.cross_correlation(tau_max, "all"), float)
        V, L = ca.cross_correlation(tau_max, "max")
        V, L = np.asarray(V, float), np.asarray(L).astype(int)
    except Exception as e:
        ctx.violation(where, "raises", dict(key, err=f"{type(e).__name__}: "
                                            f"{e}"), dict(tags,
                                                          kind="exception"))
        return
    # the series are centred in float64 before the cast to binary32, so the
    # attainable accuracy does not depend on their offset
    deg = degenerate(X, tau_max)
    tol = TOL
    R = ref_cc_all(X, tau_max)
    bad = []
    if not deg:
        if F.shape != R.shape or np.abs(F - R).max() > tol:
            i, j, l = np.unravel_index(np.abs(F - R).argmax(), R.shape)
            bad.append(f"lag_mode='all' entry ({i},{j},{l}) = {F[i, j, l]!r}, "
                       f"statistic = {R[i, j, l]!r}")
        for i in range(N):
            for j in range(N):
                if i == j:
                    if V[i, j] != 1 or L[i, j] != 0:
                        bad.append("diagonal of lag_mode='max' is not (1, 0)")
                    continue
                m = np.abs(R[i, j]).max()
                l = L[i, j]
                if not (0 <= l <= tau_max) or abs(abs(V[i, j]) - m) > tol \
                        or abs(V[i, j] - R[i, j, min(max(l, 0), tau_max)]) \
                        > tol:
                    bad.append(f"lag_mode='max' ({i},{j}): value {V[i, j]!r} "
                               f"at lag {l}, lag function {R[i, j].tolist()}")
                    break
            else:
                continue
            break
        if np.abs(F).max() > 1 + tol:
            bad.append("correlation outside [-1, 1]")
    if bad:
        ctx.violation(where, "; ".join(bad[:3]), key, tags)
    # symmetrize
    try:
        S, LS = ca.symmetrize_by_absmax(V.astype(np.float32).copy(),
                                        L.astype(np.int8).copy())
        S, LS = np.asarray(S, float), np.asarray(LS).astype(int)
        V32 = V.astype(np.float32).astype(float)
        ok = np.array_equal(S, S.T) and np.array_equal(
            LS - np.diag(np.diag(LS)), -(LS - np.diag(np.diag(LS))).T)
        ok = ok and np.array_equal(np.abs(S), np.maximum(np.abs(V32),
                                                         np.abs(V32.T)))
        if not ok:
            ctx.violation("CouplingAnalysis.symmetrize_by_absmax",
                          "result is not the symmetric absolute maximum with "
                          "antisymmetric lags", key, tags)
        if terms is not None and N <= 5 and tau_max <= 127:
            terms["sym"].append(
                f"({N}%nat, {qm(V32)}, {zm(L)}, {qm(S)}, {zm(LS)})")
            terms["sym_meta"].append(key)
    except Exception as e:
        ctx.violation("CouplingAnalysis.symmetrize_by_absmax", "raises",
                      dict(key, err=str(e)), dict(tags, kind="exception"))
    # kernels on the standardised binary32 array they receive
    if terms is not None and N <= 4 and T <= 12 and tau_max <= 3 and not deg:
        from pyunicorn.funcnet._ext.numerics import \
            _cross_correlation_max, _cross_correlation_all
        cr = T - tau_max
        arr = np.empty((tau_max + 1, N, cr), dtype=FIELD)
        for t in range(tau_max + 1):
            arr[t] = (X[t:t + cr] - X[t:t + cr].mean(axis=0)).T
            arr[t] /= arr[t].std(axis=1).reshape(N, 1)
            arr[t][np.isnan(arr[t])] = 0
        v, l = _cross_correlation_max(arr.copy(), N, tau_max, cr)
        f = _cross_correlation_all(arr.copy(), N, tau_max, cr)
        A = listlit([qm(arr[t].astype(float)) for t in range(tau_max + 1)])
        terms["max"].append(f"({A}, {N}%nat, {tau_max}%nat, {cr}%nat, "
                            f"{qm(np.asarray(v, float))}, "
                            f"{zm(np.asarray(l).astype(int))})")
        terms["max_meta"].append(key)
        terms["all"].append(
            f"({A}, {N}%nat, {tau_max}%nat, {cr}%nat, "
            + listlit([qm(np.asarray(f[i], float)) for i in range(N)]) + ")")
        terms["all_meta"].append(key)
    # reordering the series reorders the matrices
    p = list(range(N))
    ctx.rng.shuffle(p)
    F2 = np.asarray(CouplingAnalysis(X[:, p].copy(), silence_level=3)
                    .cross_correlation(tau_max, "all"), float)
    if not np.array_equal(F2, F[np.ix_(p, p)]):
        ctx.violation(where, "is not permuted consistently when the series "
                      "are reordered", dict(key, perm=p), tags)
    # pure-Python implementation at lag 0
    if tau_max == 0 and not deg:
        from pyunicorn.funcnet import CouplingAnalysisPurePython
        try:
            P = CouplingAnalysisPurePython(X.copy(), silence_level=3) \
                .cross_correlation(tau_max=0, lag_mode="all")
            if np.abs(np.asarray(P[0], float) - F[:, :, 0]).max() > tol:
                ctx.violation("CouplingAnalysisPurePython.cross_correlation",
                              "disagrees with the compiled implementation",
                              key, tags)
        except Exception as e:
            ctx.violation("CouplingAnalysisPurePython.cross_correlation",
                          "raises", dict(key, err=str(e)),
                          dict(tags, kind="exception"))


def qm(M):
    return listlit([listlit([qlit(float(x)) for x in r]) for r in M])


def zm(M):
    return listlit([listlit([f"({int(x)})%Z" for x in r]) for r in M])


def cmi_gauss(x, y, Z):
    """-1/2 log(1 - rho^2), rho = partial correlation of x, y given Z"""
    def resid(v):
        v = v - v.mean()
        if len(Z):
            Zc = np.array([z - z.mean() for z in Z]).T
            beta, *_ = np.linalg.lstsq(Zc, v, rcond=None)
            v = v - Zc @ beta
        return v
    rx, ry = resid(x), resid(y)
    d = math.sqrt(float(rx @ rx) * float(ry @ ry))
    rho = float(rx @ ry) / d if d > 0 else 0.0
    return -0.5 * math.log(max(1e-300, 1 - rho * rho)), rho


def binned_mi(x, y, bins):
    """plug-in MI of the equal-quantile partition (distinct values)"""
    T = len(x)
    per = int(math.ceil(T / float(bins)))
    sx = np.argsort(np.argsort(x)) // per
    sy = np.argsort(np.argsort(y)) // per
    nb = int(max(sx.max(), sy.max()) + 1)
    h = np.zeros((nb, nb))
    for a, b in zip(sx, sy):
        h[a, b] += 1
    p = h / T
    px, py = p.sum(axis=1), p.sum(axis=0)
    m = p > 0
    return float((p[m] * np.log(p[m] / np.outer(px, py)[m])).sum())


def check_info(ctx, X, tau_max, kind):
    from pyunicorn.funcnet import CouplingAnalysis
    T, N = X.shape
    key = {"data": X.tolist(), "tau_max": tau_max}
    tags = {"data": kind}
    ca = CouplingAnalysis(X.copy(), silence_level=3)
    ctx.evaluations += 1
    ctx.stat("info:" + kind)
    # ---- Gaussian MI
    where = "CouplingAnalysis.mutual_information(gauss)"
    try:
        with np.errstate(all="ignore"):
            F = np.asarray(ca.mutual_information(
                tau_max=tau_max, estimator="gauss", lag_mode="all"), float)
            V, L = ca.mutual_information(tau_max=tau_max, estimator="gauss",
                                         lag_mode="max")
        V, L = np.asarray(V, float), np.asarray(L).astype(int)
        R = np.zeros_like(F)
        for i in range(N):
            for j in range(N):
                for l in range(tau_max + 1):
                    R[i, j, l] = cmi_gauss(X[tau_max - l: T - l, i],
                                           X[tau_max:, j], [])[0]
        ok = True
        for i in range(N):
            for j in range(N):
                for l in range(tau_max + 1):
                    r, f = R[i, j, l], F[i, j, l]
                    if r > 8:          # |rho| ~ 1: the statistic is +inf and
                        # rounding decides between inf, ~18 and nan (1-r^2<0)
                        ok = ok and not (f <= 6)
                    else:
                        ok = ok and abs(f - r) <= 1e-4 * (1 + r) * \
                            math.exp(2 * r)
                if i != j and R[i, j].max() < 8:
                    l = L[i, j]
                    ok = ok and 0 <= l <= tau_max and \
                        abs(V[i, j] - R[i, j].max()) <= 1e-4 * (
                            1 + R[i, j].max()) * math.exp(2 * R[i, j].max())
        if not ok:
            ctx.violation(where, "differs from -1/2 log(1 - r^2) of the "
                          "lagged Pearson correlation", key, tags)
    except Exception as e:
        ctx.violation(where, "raises", dict(key, err=f"{type(e).__name__}: "
                                            f"{e}"), dict(tags,
                                                          kind="exception"))
    # ---- binned MI on distinct values
    bins = ctx.rng.choice([2, 3, 4])
    S = T - tau_max
    if S % bins == 0 and S >= 2 * bins and kind in ("gauss", "ar", "offset"):
        where = "CouplingAnalysis.mutual_information(binning)"
        try:
            F = np.asarray(ca.mutual_information(
                tau_max=tau_max, estimator="binning", bins=bins,
                lag_mode="all"), float)
            ok, worst = True, None
            for i in range(N):
                for j in range(N):
                    for l in range(tau_max + 1):
                        r = binned_mi(X[tau_max - l: T - l, i],
                                      X[tau_max:, j], bins)
                        if abs(F[i, j, l] - r) > 1e-5 * (1 + r):
                            ok, worst = False, (i, j, l, float(F[i, j, l]), r)
            if not ok:
                ctx.violation(where, "differs from the plug-in mutual "
                              "information of the equal-quantile partition: "
                              f"(i,j,lag,got,want) = {worst}",
                              dict(key, bins=bins),
                              dict(tags, lagged=tau_max > 0,
                                   ratio_is_S_over_T=bool(
                                       worst and abs(worst[3] * T - worst[4]
                                                     * S) < 1e-4 * T)))
        except Exception as e:
            ctx.violation(where, "raises", dict(key, bins=bins, err=str(e)),
                          dict(tags, kind="exception"))
    # ---- Gaussian information transfer
    for cond_mode in ("ity", "mit"):
        past = ctx.rng.choice([1, 2])
        S = T - tau_max - past
        ncond = past * (1 if cond_mode == "ity" else 2)
        if S < ncond + 4:
            continue
        for lag_mode in ("max", "all"):
            where = f"CouplingAnalysis.information_transfer(gauss,{lag_mode})"
            k2 = dict(key, past=past, cond_mode=cond_mode)
            try:
                with np.errstate(all="ignore"):
                    out = ca.information_transfer(
                        tau_max=tau_max, estimator="gauss", past=past,
                        cond_mode=cond_mode, lag_mode=lag_mode)
            except Exception as e:
                ctx.violation(where, "raises", dict(
                    k2, err=f"{type(e).__name__}: {e}"),
                    dict(tags, kind="exception", cond_mode=cond_mode))
                continue
            ml = tau_max + past
            R = np.zeros((N, N, tau_max + 1))
            ok = np.ones((N, N, tau_max + 1), bool)   # well-posed entries
            for i in range(N):
                for j in range(N):
                    for tau in range(tau_max + 1):
                        x = X[ml - tau: T - tau, i]
                        y = X[ml:, j]
                        Z = [X[ml - p: T - p, j] for p in range(1, past + 1)]
                        if cond_mode == "mit":
                            Z += [X[ml - tau - p: T - tau - p, i]
                                  for p in range(1, past + 1)]
                        M = np.array([x, y] + Z)
                        Mc = M - M.mean(axis=1, keepdims=True)
                        sv = np.linalg.svd(Mc, compute_uv=False)
                        if sv[-1] < 1e-3 * sv[0]:
                            ok[i, j, tau] = False     # collinear: undefined
                            continue
                        R[i, j, tau] = cmi_gauss(x, y, Z)[0]
            if kind in ("special", "integer") or R.max() > 6:
                continue
            if lag_mode == "all":
                F = np.asarray(out, float)
                F = np.where(np.isfinite(F), F, 1e9)
                E = R.copy()
                E[range(N), range(N), 0] = 0
                ok[range(N), range(N), 0] = True
                if np.abs(F - E)[ok].max() > 2e-4 * (1 + E.max()):
                    i, j, l = np.unravel_index(
                        (np.abs(F - E) * ok).argmax(), E.shape)
                    ctx.violation(where, "differs from the Gaussian "
                                  "conditional mutual information: entry "
                                  f"({i},{j},{l}) = {F[i, j, l]!r}, "
                                  f"reference {E[i, j, l]!r}", k2,
                                  dict(tags, cond_mode=cond_mode))
            else:
                V = np.asarray(out[0], float)
                for i in range(N):
                    for j in range(N):
                        if i != j and not ok[i, j].all():
                            continue
                        want = 0 if i == j else max(0.0, R[i, j].max())
                        if not abs(V[i, j] - want) <= 2e-4 * (1 + want):
                            ctx.violation(where, "maximum differs from the "
                                          "Gaussian conditional mutual "
                                          f"information at ({i},{j}): "
                                          f"{V[i, j]!r} vs {want!r}", k2,
                                          dict(tags, cond_mode=cond_mode))
                            break
                    else:
                        continue
                    break


# --------------------------------------------------------------------------
# climate similarity classes, surrogate tests
# --------------------------------------------------------------------------

def check_climate(ctx):
    from pyunicorn.climate.climate_data import ClimateData
    from pyunicorn.core.geo_grid import GeoGrid
    from pyunicorn.climate.tsonis import TsonisClimateNetwork
    from pyunicorn.climate.spearman import SpearmanClimateNetwork
    from pyunicorn.climate.partial_correlation import \
        PartialCorrelationClimateNetwork
    from pyunicorn.climate.mutual_info import MutualInfoClimateNetwork
    rng = ctx.rng
    N = rng.randint(3, 6)
    T = 12 * rng.randint(2, 4)
    g = np.random.default_rng(rng.randrange(2 ** 32))
    ties = rng.random() < 0.4
    obs = g.standard_normal((T, N)) + 0.6 * g.standard_normal((T, 1))
    if ties:
        obs = np.round(obs * 2) / 2
    grid = GeoGrid(np.arange(T), np.linspace(-60, 60, N),
                   np.linspace(-150, 150, N), silence_level=3)
    key = {"observable": obs.tolist()}
    tags = {"ties": ties}
    ctx.evaluations += 1
    ctx.stat("climate:" + ("ties" if ties else "distinct"))
    data = ClimateData(obs.copy(), grid, time_cycle=12, silence_level=3)
    anom = np.asarray(data.anomaly(), float).copy()
    import scipy.stats
    refs = {
        TsonisClimateNetwork: np.corrcoef(anom.T),
        SpearmanClimateNetwork: np.array(
            [[scipy.stats.spearmanr(anom[:, i], anom[:, j])[0]
              for j in range(N)] for i in range(N)]),
    }
    C = np.corrcoef(anom.T)
    if np.linalg.cond(C) < 1e6:
        P = np.linalg.inv(C)
        d = np.sqrt(np.diag(P))
        refs[PartialCorrelationClimateNetwork] = -P / np.outer(d, d)
    for cls, ref in refs.items():
        where = cls.__name__ + ".similarity_measure"
        try:
            net = cls(ClimateData(obs.copy(), grid, time_cycle=12,
                                  silence_level=3), threshold=0.5,
                      winter_only=False, silence_level=3)
            # the network stores |similarity|; the statistic itself:
            got = np.asarray(net.calculate_similarity_measure(anom.copy()),
                             float)
            stored = np.asarray(net.similarity_measure(), float)
        except Exception as e:
            ctx.violation(where, "raises", dict(key, err=f"{type(e).__name__}"
                                                f": {e}"),
                          dict(tags, kind="exception"))
            continue
        off = ~np.eye(N, dtype=bool)
        if np.abs(got - ref)[off].max() > 2e-6 * 4:
            ctx.violation(where, "differs from the reference statistic "
                          f"(max deviation {np.abs(got - ref)[off].max():.3g}"
                          ")", key, dict(tags, cls=cls.__name__))
        elif np.abs(stored - np.abs(ref))[off].max() > 1e-5:
            ctx.violation(where, "stored similarity is not |statistic|", key,
                          dict(tags, cls=cls.__name__))
        if not np.allclose(got, got.T, atol=1e-6):
            ctx.violation(where, "not symmetric", key, tags)
        # the stored statistic stays the statistic whatever is done with the
        # network afterwards (thresholds, densities, the non-local flag)
        try:
            for op in ctx.rng.sample(["nl", "thr", "dens", "nl", "thr"], 3):
                if op == "nl":
                    net.set_non_local(not net.non_local())
                elif op == "thr":
                    net.set_threshold(ctx.rng.randint(1, 9) / 10.0)
                else:
                    net.set_link_density(ctx.rng.randint(1, 9) / 10.0)
            later = np.asarray(net.similarity_measure(), float)
            if np.abs(later - stored).max() > 0:
                ctx.violation(where, "changes after set_non_local / "
                              "set_threshold / set_link_density (max "
                              f"deviation {np.abs(later - stored).max():.3g})",
                              key, dict(tags, cls=cls.__name__,
                                        history=True))
        except Exception as e:
            ctx.violation(where, "raises after the network setters",
                          dict(key, err=f"{type(e).__name__}: {e}"),
                          dict(tags, kind="exception"))
    # C histogram mutual information
    where = "MutualInfoClimateNetwork.similarity_measure"
    try:
        net = MutualInfoClimateNetwork(
            ClimateData(obs.copy(), grid, time_cycle=12, silence_level=3),
            threshold=0.5, winter_only=False, silence_level=3)
        nb = 32
        got = np.asarray(net._cython_calculate_mutual_information(
            anom.copy(), n_bins=nb), float)
        # the library's own (documented in-place) normaliser, so that the
        # values entering the symbolisation are bit-identical
        from pyunicorn.core.data import Data
        a = anom.copy()
        Data.normalize_time_series_array(a)
        a32 = a.astype(np.float32)
        lo, hi = float(a32.min()), float(a32.max())
        sc = np.float32(1.0 / (hi - lo))
        resc = (sc * (a32 - np.float32(lo))).astype(np.float64)
        sym = np.where(resc < 1.0, (resc * nb).astype(int), nb - 1)
        # a sample on a bin boundary is assigned by the last bit of the
        # float32 arithmetic: the estimator is discontinuous there and no
        # reference is attainable
        frac = resc * nb - np.floor(resc * nb)
        on_edge = bool(np.any((np.minimum(frac, 1 - frac) < 1e-4)
                              & (resc > 0) & (resc < 1)))
        ref = np.zeros((N, N))
        for i in range(N):
            for j in range(N):
                if i == j:
                    continue
                h = np.zeros((nb, nb))
                for u, v in zip(sym[:, i], sym[:, j]):
                    h[u, v] += 1
                p = h / T
                px, py = p.sum(axis=1), p.sum(axis=0)
                m = p > 0
                ref[i, j] = (p[m] * np.log(p[m] / np.outer(px, py)[m])).sum()
        off = ~np.eye(N, dtype=bool)
        if on_edge:
            ctx.stat("climate MI: sample on a bin boundary (skipped)")
        elif np.abs(got - ref)[off].max() > 1e-5:
            ctx.violation(where, "differs from the histogram mutual "
                          "information", key, tags)
        if not np.array_equal(got, got.T):
            ctx.violation(where, "not symmetric", key, tags)
    except Exception as e:
        ctx.violation(where, "raises", dict(key, err=f"{type(e).__name__}: "
                                            f"{e}"), dict(tags,
                                                          kind="exception"))


def check_surrogate_tests(ctx):
    from pyunicorn.timeseries.surrogates import Surrogates
    rng = ctx.rng
    N, T = rng.randint(2, 5), rng.choice([8, 16, 30])
    g = np.random.default_rng(rng.randrange(2 ** 32))
    X = g.standard_normal((N, T))
    Y = g.standard_normal((N, T)) + 0.5 * X
    key = {"original": X.tolist(), "surrogates": Y.tolist()}
    ctx.evaluations += 1
    ctx.stat("surrogate tests")
    s = Surrogates(X.copy(), silence_level=3)
    # both methods document that the data must already be normalised
    xn = (X - X.mean(axis=1, keepdims=True)) / X.std(axis=1, keepdims=True)
    yn = (Y - Y.mean(axis=1, keepdims=True)) / Y.std(axis=1, keepdims=True)
    key = {"original": xn.tolist(), "surrogates": yn.tolist()}
    where = "Surrogates.test_pearson_correlation"
    try:
        got = np.asarray(s.test_pearson_correlation(xn.copy(), yn.copy()),
                         float)
        ref = xn @ yn.T / T
        np.fill_diagonal(ref, 0)
        if np.abs(got - ref).max() > 1e-6:
            ctx.violation(where, "is not the correlation of original i with "
                          "surrogate j", key, {})
    except Exception as e:
        ctx.violation(where, "raises", dict(key, err=f"{type(e).__name__}: "
                                            f"{e}"), {"kind": "exception"})
    where = "Surrogates.test_mutual_information"
    nb = rng.choice([4, 8, 32])
    try:
        got = np.asarray(s.test_mutual_information(xn.copy(), yn.copy(),
                                                   n_bins=nb), float)
        lo = min(xn.min(), yn.min())
        sc = 1.0 / (max(xn.max(), yn.max()) - lo)

        def symb(a):
            r = sc * (a - lo)
            return np.where(r < 1.0, (r * nb).astype(int), nb - 1)
        sx, sy = symb(xn), symb(yn)
        ref = np.zeros((N, N))
        for i in range(N):
            for j in range(N):
                if i == j:
                    continue
                h = np.zeros((nb, nb))
                for u, v in zip(sx[i], sy[j]):
                    h[u, v] += 1
                p = h / T
                px, py = p.sum(axis=1), p.sum(axis=0)
                m = p > 0
                ref[i, j] = (p[m] * np.log(p[m] / np.outer(px, py)[m])).sum()
        if np.abs(got - ref).max() > 1e-4:
            ctx.violation(where, "is not the histogram mutual information of "
                          "original i with surrogate j", dict(key, n_bins=nb),
                          {})
    except Exception as e:
        ctx.violation(where, "raises", dict(key, err=f"{type(e).__name__}: "
                                            f"{e}"), {"kind": "exception"})


# --------------------------------------------------------------------------

def run_all(ctx, terms=None):
    rng = ctx.rng
    for _ in range(ctx.n(50, 400)):
        X, kind = dataset(rng)
        T = len(X)
        tau_max = rng.choice([0, 0, 1, 2, 3]) if T > 5 else rng.choice(
            [0, 1])
        tau_max = min(tau_max, T - 3)
        check_cc(ctx, X, max(0, tau_max), kind, terms)
    # long lags: the lag matrix must hold them
    for T, tau_max in ((140, 130), (300, 200)):
        g = np.random.default_rng(rng.randrange(2 ** 32))
        X = g.standard_normal((T, 2))
        X[tau_max:, 1] += 3 * X[:T - tau_max, 0]     # peak at lag tau_max
        check_cc(ctx, X, tau_max, "long lag")
    for _ in range(ctx.n(25, 200)):
        T = rng.choice([12, 16, 24, 36])
        X, kind = dataset(rng, T=T, N=rng.choice([2, 3]))
        check_info(ctx, X, rng.choice([0, 0, 1, 2, 4]), kind)
    for _ in range(ctx.n(10, 80)):
        check_climate(ctx)
    for _ in range(ctx.n(10, 80)):
        check_surrogate_tests(ctx)


def correspondence(ctx):
    terms = {k: [] for k in ("max", "max_meta", "all", "all_meta", "sym",
                             "sym_meta")}
    with warnings.catch_warnings():
        warnings.simplefilter("ignore")
        run_all(ctx, terms)
    ctx._done = True
    for k, fn, chunk in (("max", "check_max", 25), ("all", "check_all", 25),
                         ("sym", "check_sym", 100)):
        fails = ctx.coq_failing("c10_" + k, HEADER, terms[k], fn, chunk=chunk)
        for i in fails or []:
            ctx.corr(f"coupling model != implementation ({k})",
                     terms[k + "_meta"][i], None)
        ctx.traces += len(terms[k])
        ctx.stats["c_" + k] = len(terms[k])


def search(ctx):
    ctx.stats["rule"] = (
        "data: Gaussian, AR(1) with cross coupling, integers with ties, "
        "duplicated / anti-correlated / constant columns, large offsets "
        "(|mean|/std up to 1e5), T = 3..40, N = 2..5 incl. N > T, tau_max "
        "0..3 and 130 / 200; references in float64: lagged Pearson on the "
        "documented windows, -1/2 log(1-r^2), plug-in MI of the "
        "equal-quantile partition (distinct values, sample size divisible by "
        "the number of bins), Gaussian conditional MI by least squares "
        "(ity / mit, past 1..2, both lag modes), numpy / scipy for the "
        "climate classes (Pearson, Spearman with mid-ranks, partial "
        "correlation, histogram MI), Surrogates.test_pearson_correlation / "
        "test_mutual_information on normalised data; "
        "series reordering; compiled vs pure-Python at lag 0. Windows with "
        "(nearly) constant series are skipped (statistic undefined). "
        "knn estimators: not compared (random tie-breaking noise inside).")
    if not getattr(ctx, "_done", False) or ctx.scale > 1:
        with warnings.catch_warnings():
            warnings.simplefilter("ignore")
            run_all(ctx)


def replay(ctx, rep):
    c = rep["case"]
    with warnings.catch_warnings():
        warnings.simplefilter("ignore")
        if "data" in c and "past" not in c and "bins" not in c:
            X = np.array(c["data"], float)
            check_cc(ctx, X, c["tau_max"], "replay")
            if len(X) >= 12:
                check_info(ctx, X, c["tau_max"], "replay")
        else:
            run_all(ctx)
