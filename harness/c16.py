"""C16 — event synchronisation / coincidence follow their counting rules."""
import itertools
import math
import warnings

import numpy as np

from common import listlit, zlit

MODELLED = [
    "EventSeries.event_synchronization (vectorised counting, dynamic delay, "
    "equal-time half counts, double-count correction)",
    "EventSeries.event_coincidence_analysis (static, four rates)",
]

HEADER = """From Coq Require Import ZArith List Bool Arith.
From PV.Model Require Import EventSync.
Import ListNotations.
Open Scope Z_scope.
Definition tm_of (z : Z) : option Z := if z <? 0 then None else Some z.
(* taumax (-1 = inf), lag, ex, ey, (2*count_xy, 2*count_yx, lx-2, ly-2) *)
Definition check_es (c : Z * Z * list Z * list Z * (nat * nat * nat * nat)) : bool :=
  let '(tm, lag, ex, ey, (a, b, lx, ly)) := c in
  let '(a', b', lx', ly') := es (tm_of tm) lag ex ey in
  Nat.eqb a a' && Nat.eqb b b' && Nat.eqb lx lx' && Nat.eqb ly ly'.
Definition pair_eqb (p q : nat * nat) := Nat.eqb (fst p) (fst q) && Nat.eqb (snd p) (snd q).
Definition check_eca (c : Z * Z * list Z * list Z * ((nat*nat)*(nat*nat)*(nat*nat)*(nat*nat))) : bool :=
  let '(tm, lag, e1, e2, (r1, r2, r3, r4)) := c in
  let '(s1, s2, s3, s4) := eca tm lag e1 e2 in
  pair_eqb r1 s1 && pair_eqb r2 s2 && pair_eqb r3 s3 && pair_eqb r4 s4.
"""


TRANSLATORS = [('py_eventsync_facts', 'EventSyncK')]


def theorems(ctx):
    ctx.modelled += MODELLED
    ctx.generate(TRANSLATORS)
    ctx.theorems()
    if ctx.tier == "thorough":
        ctx.coqchk()


def ES():
    from pyunicorn.eventseries.event_series import EventSeries
    return EventSeries


def rand_events(rng, T, kmax=None):
    k = rng.choice([0, 1, 2, 3, 4, 5, 6, 8]) if kmax is None else kmax
    k = min(k, T)
    idx = sorted(rng.sample(range(T), k))
    v = np.zeros(T, dtype=int)
    v[idx] = 1
    return v


def gen_pairs(ctx):
    rng = ctx.rng
    out = []
    if ctx.tier == "thorough":
        for T in (6, 7):
            for a in itertools.product([0, 1], repeat=T):
                if sum(a) < 3:
                    continue
                for b in itertools.product([0, 1], repeat=T):
                    if sum(b) >= 3 and rng.random() < 0.15:
                        out.append((np.array(a), np.array(b), None))
    for _ in range(ctx.n(200, 1500)):
        T = rng.randint(4, 40)
        x, y = rand_events(rng, T), rand_events(rng, T)
        ts = None
        if rng.random() < 0.4:
            ts, c = [], 0
            for _ in range(T):
                c += rng.randint(1, 4)
                ts.append(c)
            ts = np.array(ts)
        out.append((x, y, ts))
    return out


def ref_es(ex, ey, taumax):
    """direct evaluation of the counting rule of [Quiroga2002] with the
    correction of [Odenweller2020]: a coincidence counts 1, or 1/2 when one
    of its two events also takes part in a coincidence of the opposite
    direction; simultaneous events count 1/2 for both directions"""
    la, lb = len(ex), len(ey)
    fw, bw, eq = set(), set(), 0
    for i in range(1, la - 1):
        for j in range(1, lb - 1):
            tau = min(ex[i + 1] - ex[i], ex[i] - ex[i - 1],
                      ey[j + 1] - ey[j], ey[j] - ey[j - 1]) / 2.0
            tau = min(tau, taumax)
            d = ex[i] - ey[j]
            if 0 < d <= tau:
                fw.add((i, j))
            elif -tau <= d < 0:
                bw.add((i, j))
            elif d == 0:
                eq += 1

    def total(mine, other):
        s = 0.5 * eq
        oi = {i for i, _ in other}
        oj = {j for _, j in other}
        for i, j in mine:
            s += 0.5 if (i in oi or j in oj) else 1.0
        return s
    return total(fw, bw), total(bw, fw)


def es_counts(val, lx, ly):
    norm = math.sqrt((lx - 2) * (ly - 2))
    return int(round(val * norm * 2))


def correspondence(ctx):
    E = ES()
    rng = ctx.rng
    pairs = gen_pairs(ctx)
    ctx._pairs = pairs
    es_t, es_m, eca_t, eca_m = [], [], [], []
    with warnings.catch_warnings():
        warnings.simplefilter("ignore")
        for x, y, ts in pairs:
            t = np.arange(len(x)) if ts is None else ts
            ex, ey = t[x == 1].tolist(), t[y == 1].tolist()
            tm = rng.choice([-1, 0, 1, 2, 5])
            lag = rng.choice([0, 0, 1, 2, -1])
            if len(ex) >= 3 and len(ey) >= 3:
                a, b = E.event_synchronization(
                    x, y, ts1=t, ts2=t,
                    taumax=(np.inf if tm < 0 else tm), lag=float(lag))
                lx, ly = len(ex), len(ey)
                es_t.append(
                    f"({zlit(tm)}, {zlit(lag)}, "
                    f"{listlit([zlit(v) for v in ex])}, "
                    f"{listlit([zlit(v) for v in ey])}, "
                    f"({es_counts(a, lx, ly)}%nat, {es_counts(b, lx, ly)}%nat,"
                    f" {lx - 2}%nat, {ly - 2}%nat))")
                es_m.append({"ex": ex, "ey": ey, "taumax": tm, "lag": lag})
            if len(ex) >= 1 and len(ey) >= 1:
                tme = rng.choice([0, 1, 2, 5])
                lage = rng.choice([0, 0, 1, 2])
                l1, l2 = len(ex), len(ey)
                e1, e2 = np.array(ex), np.array(ey)
                if not (lage == 0 and tme == 0):
                    n11 = int((e1 <= e1[0] + lage + tme).sum())
                    n12 = int((e1 >= e1[-1] - lage - tme).sum())
                    n21 = int((e2 <= e2[0] + lage + tme).sum())
                    n22 = int((e2 >= e2[-1] - lage - tme).sum())
                else:
                    n11 = n12 = n21 = n22 = 0
                dens = [l1 - n11, l2 - n22, l2 - n21, l1 - n12]
                if min(dens) <= 0:
                    continue
                r = E.event_coincidence_analysis(x, y, tme, ts1=t, ts2=t,
                                                 lag=lage)
                cnts = [int(round(float(v) * d)) for v, d in zip(r, dens)]
                eca_t.append(
                    f"({zlit(tme)}, {zlit(lage)}, "
                    f"{listlit([zlit(v) for v in ex])}, "
                    f"{listlit([zlit(v) for v in ey])}, ("
                    + ", ".join(f"({c}%nat, {d}%nat)"
                                for c, d in zip(cnts, dens)) + "))")
                eca_m.append({"ex": ex, "ey": ey, "taumax": tme, "lag": lage})
    for name, terms, fn, meta in (("es", es_t, "check_es", es_m),
                                  ("eca", eca_t, "check_eca", eca_m)):
        fails = ctx.coq_failing("c16_" + name, HEADER, terms, fn, chunk=300)
        for i in fails or []:
            ctx.corr(f"event model != implementation ({name})", meta[i], None)
        ctx.traces += len(terms)
        ctx.stats["c_" + name] = len(terms)


# --------------------------------------------------------------------------

def close(a, b, tol=1e-9):
    return (math.isnan(a) and math.isnan(b)) or abs(a - b) <= tol * (1 + abs(b))


def check_pair(ctx, x, y, ts):
    E = ES()
    rng = ctx.rng
    t = np.arange(len(x)) if ts is None else ts
    ex, ey = t[x == 1].astype(float), t[y == 1].astype(float)
    key = {"x": x.tolist(), "y": y.tolist(),
           "ts": None if ts is None else ts.tolist()}
    ctx.count(key, nontrivial=len(ex) >= 3 and len(ey) >= 3)
    ctx.stat("events_x=%d" % min(len(ex), 6))
    tm = rng.choice([np.inf, 0, 1, 2, 5])
    with warnings.catch_warnings():
        warnings.simplefilter("ignore")
        a, b = E.event_synchronization(x, y, ts1=t, ts2=t, taumax=tm)
        a2, b2 = E.event_synchronization(y, x, ts1=t, ts2=t, taumax=tm)
        k2 = dict(key, taumax=None if tm == np.inf else tm)
        if not (close(a, b2) and close(b, a2)):
            ctx.violation("EventSeries.event_synchronization",
                          "exchange of the sequences is inconsistent",
                          dict(k2, xy=[a, b], yx=[a2, b2]), {})
        if len(ex) >= 3 and len(ey) >= 3:
            if not (0 <= a <= 1 + 1e-12 and 0 <= b <= 1 + 1e-12):
                ctx.violation("EventSeries.event_synchronization",
                              "strength outside [0,1]", dict(k2, xy=[a, b]),
                              {})
            ja, jb = ref_es(ex, ey, tm)
            norm = math.sqrt((len(ex) - 2) * (len(ey) - 2))
            # the implementation removes half a count for pairs matched in
            # both directions; the published J has no such pairs when the
            # dynamic delay is at most half the adjacent gaps
            if not (close(a, ja / norm) and close(b, jb / norm)):
                ctx.violation("EventSeries.event_synchronization",
                              "differs from the published counting formula",
                              dict(k2, got=[a, b],
                                   formula=[ja / norm, jb / norm]), {})
            c = float(rng.randint(1, 7))
            a3, b3 = E.event_synchronization(x, y, ts1=t + c, ts2=t + c,
                                             taumax=tm)
            if not (close(a, a3) and close(b, b3)):
                ctx.violation("EventSeries.event_synchronization",
                              "changes under a common time shift", k2, {})
            for kk in (3.0, 2.0 ** -30):
                a4, b4 = E.event_synchronization(x, y, ts1=t * kk, ts2=t * kk,
                                                 taumax=np.inf)
                a0, b0 = E.event_synchronization(x, y, ts1=t, ts2=t,
                                                 taumax=np.inf)
                if not (close(a0, a4) and close(b0, b4)):
                    ctx.violation("EventSeries.event_synchronization",
                                  "changes under rescaling of time with an "
                                  "unbounded window", dict(k2, factor=kk), {})
        # coincidence rates
        if len(ex) >= 1 and len(ey) >= 1:
            tme = rng.choice([0, 0, 1, 2, 5])
            lage = rng.choice([0, 0, 1, 2, -1])
            r = [float(v) for v in E.event_coincidence_analysis(
                x, y, tme, ts1=t, ts2=t, lag=lage)]
            want = ref_eca_static(np.asarray(t)[np.asarray(x) == 1],
                                  np.asarray(t)[np.asarray(y) == 1],
                                  tme, lage)
            if not all((math.isnan(p) and math.isnan(q))
                       or (math.isinf(p) and math.isinf(q))
                       or close(p, q, 1e-6) for p, q in zip(r, want)):
                ctx.violation("EventSeries.event_coincidence_analysis",
                              "differs from the counting formula (events "
                              "with a partner in [lag, lag + taumax] over "
                              "the events not excluded at the boundary)",
                              dict(key, taumax=tme, lag=lage, got=r,
                                   want=want), {})
            r2 = [float(v) for v in E.event_coincidence_analysis(
                y, x, tme, ts1=t, ts2=t, lag=lage)]
            k3 = dict(key, taumax=tme, lag=lage)
            for v in r:
                if not math.isnan(v) and not math.isinf(v) and \
                        not (-1e-12 <= v <= 1 + 1e-6):
                    ctx.violation("EventSeries.event_coincidence_analysis",
                                  "rate outside [0,1]", dict(k3, rates=r), {})
            if not all(close(p, q, 1e-6) or (math.isinf(p) and math.isinf(q))
                       for p, q in zip(r, r2[2:] + r2[:2])):
                ctx.violation("EventSeries.event_coincidence_analysis",
                              "exchange of the sequences is inconsistent",
                              dict(k3, xy=r, yx=r2), {})
            c = float(rng.randint(1, 7))
            r3 = [float(v) for v in E.event_coincidence_analysis(
                x, y, tme, ts1=t + c, ts2=t + c, lag=lage)]
            if not all(close(p, q, 1e-6) or (math.isinf(p) and math.isinf(q))
                       for p, q in zip(r, r3)):
                ctx.violation("EventSeries.event_coincidence_analysis",
                              "changes under a common time shift", k3, {})
    ctx.sample(key)


def ref_eca_static(e1, e2, taumax, lag):
    """[precursor XY, trigger XY, precursor YX, trigger YX] by plain counting;
    the first / last events closer than lag + taumax to the ends of their
    series are excluded, none in the instantaneous case lag = taumax = 0"""
    e1, e2 = [float(v) for v in e1], [float(v) for v in e2]
    l1, l2 = len(e1), len(e2)
    if lag == 0 and taumax == 0:
        n11 = n12 = n21 = n22 = 0
    else:
        n11 = sum(1 for v in e1 if v <= e1[0] + lag + taumax)
        n12 = sum(1 for v in e1 if v >= e1[-1] - lag - taumax)
        n21 = sum(1 for v in e2 if v <= e2[0] + lag + taumax)
        n22 = sum(1 for v in e2 if v >= e2[-1] - lag - taumax)

    def hit(a, b):          # b precedes a by lag .. lag + taumax
        return 0 <= a - b - lag <= taumax
    p12 = sum(1 for i in range(n11, l1) if any(hit(e1[i], b) for b in e2))
    t12 = sum(1 for j in range(0, l2 - n22) if any(hit(a, e2[j])
                                                   for a in e1))
    p21 = sum(1 for j in range(n21, l2) if any(hit(e2[j], a) for a in e1))
    t21 = sum(1 for i in range(0, l1 - n12) if any(hit(b, e1[i])
                                                   for b in e2))

    def div(a, b):
        if b == 0:
            return float("nan") if a == 0 else float("inf")
        return a / b
    return [div(p12, l1 - n11), div(t12, l2 - n22), div(p21, l2 - n21),
            div(t21, l1 - n12)]


def ref_eca_rate(e1, e2, taumax, lag, window):
    """published rate r(Y|X) for the instance method (no boundary events
    excluded when lag = taumax = 0; otherwise the slicing rule)"""
    e1, e2 = np.asarray(e1, float), np.asarray(e2, float)
    l1, l2 = len(e1), len(e2)
    dst = e1[:, None] - e2[None, :]
    inst = (lag == 0 and taumax == 0)
    if window == "advanced":
        d1, d2 = 0.0, taumax
        n11 = 0 if inst else int((e1 <= e1[0] + lag + d2).sum())
        n21 = 0 if inst else int((e2 <= e2[0] + lag + d2).sum())
        c12 = np.any(((dst - lag >= d1) & (dst - lag <= d2))[n11:, :],
                     axis=1).sum()
        c21 = np.any(((-dst - lag >= d1) & (-dst - lag <= d2))[:, n21:],
                     axis=0).sum()
        return c12 / np.float32(l1 - n11), c21 / np.float32(l2 - n21)
    if window == "retarded":
        d1, d2 = 0.0, taumax
        n12 = 0 if inst else int((e1 >= e1[-1] - lag - d2).sum())
        n22 = 0 if inst else int((e2 >= e2[-1] - lag - d2).sum())
        c12 = np.any(((dst - lag >= d1) & (dst - lag <= d2))[:, :l2 - n22],
                     axis=0).sum()
        c21 = np.any(((-dst - lag >= d1) & (-dst - lag <= d2))[:l1 - n12, :],
                     axis=1).sum()
        return c12 / np.float32(l2 - n22), c21 / np.float32(l1 - n12)
    d1, d2 = -taumax, taumax
    n11 = 0 if inst else int((e1 <= e1[0] + lag + d2).sum())
    n12 = 0 if inst else int((e1 >= e1[-1] - lag + d1).sum())
    n21 = 0 if inst else int((e2 <= e2[0] + lag + d2).sum())
    n22 = 0 if inst else int((e2 >= e2[-1] - lag + d1).sum())
    c12 = np.any(((dst - lag >= d1) & (dst - lag <= d2))[n11:l1 - n12, :],
                 axis=1).sum()
    c21 = np.any(((-dst - lag >= d1) & (-dst - lag <= d2))[:, n21:l2 - n22],
                 axis=0).sum()
    return c12 / np.float32(l1 - n11 - n12), c21 / np.float32(l2 - n21 - n22)


def check_matrix(ctx):
    E = ES()
    rng = ctx.rng
    with warnings.catch_warnings():
        warnings.simplefilter("ignore")
        for _ in range(ctx.n(30, 200)):
            T, N = rng.randint(12, 30), rng.randint(2, 5)
            M = np.array([rand_events(rng, T, rng.randint(3, 8))
                          for _ in range(N)]).T
            tm = rng.choice([1, 2, 4])
            lag = rng.choice([0.0, 0.0, 1.0, 2.0])
            key = {"eventmatrix": M.tolist(), "taumax": tm, "lag": lag}
            ctx.evaluations += 1
            try:
                obj = E(M, taumax=tm, lag=lag)
            except Exception as e:
                ctx.violation("EventSeries", "raises", dict(
                    key, err=f"{type(e).__name__}: {e}"),
                    {"kind": "exception"})
                continue
            t = np.arange(T)
            # ES matrix: entry [i,j], [j,i] = pairwise values
            D = obj.event_series_analysis(method="ES",
                                          symmetrization="directed")
            W = np.zeros((N, N))
            for i in range(N):
                for j in range(i + 1, N):
                    W[i, j], W[j, i] = E.event_synchronization(
                        M[:, i], M[:, j], ts1=t, ts2=t, taumax=tm, lag=lag)
            if not np.allclose(D, W, equal_nan=True):
                ctx.violation("EventSeries.event_series_analysis(ES)",
                              "matrix is not the pairwise values", key, {})
            sym = {"symmetric": W + W.T, "antisym": W - W.T,
                   "mean": (W + W.T) / 2, "max": np.maximum(W, W.T),
                   "min": np.minimum(W, W.T)}
            for name, want in sym.items():
                got = obj.event_series_analysis(method="ES",
                                                symmetrization=name)
                if name == "symmetric":
                    ok = np.allclose(got, want, equal_nan=True) or \
                        np.allclose(got, want / 1.0, equal_nan=True)
                else:
                    ok = np.allclose(got, want, equal_nan=True)
                if not ok:
                    ctx.violation(
                        f"EventSeries.event_series_analysis(ES, {name})",
                        "is not the stated symmetrisation of the directed "
                        "matrix", dict(key, got=np.asarray(got).tolist(),
                                       want=want.tolist()),
                        {"symmetrization": name})
            for window in ("symmetric", "advanced", "retarded"):
                G = obj.event_series_analysis(method="ECA",
                                              symmetrization="directed",
                                              window_type=window)
                W2 = np.zeros((N, N))
                bad = False
                for i in range(N):
                    for j in range(i + 1, N):
                        e1, e2 = t[M[:, i] == 1], t[M[:, j] == 1]
                        try:
                            W2[i, j], W2[j, i] = ref_eca_rate(
                                e1, e2, tm, lag, window)
                        except Exception:
                            bad = True
                if not bad and not np.allclose(G, W2, equal_nan=True,
                                               rtol=1e-6):
                    ctx.violation(
                        f"EventSeries.event_series_analysis(ECA, {window})",
                        "matrix is not the pairwise coincidence rates",
                        dict(key, got=np.asarray(G).tolist(),
                             want=W2.tolist()), {"window": window})
            # exchanging two variables transposes the directed matrices
            perm = list(range(N))
            perm[0], perm[1] = perm[1], perm[0]
            obj2 = E(M[:, perm], taumax=tm, lag=lag)
            # (ES shifts the second = higher-index series by `lag`, so with a
            #  lag the ES matrix is tied to the index order by convention)
            methods = [("ECA", {"window_type": "symmetric"}),
                       ("ECA", {"window_type": "advanced"})]
            if lag == 0:
                methods.append(("ES", {}))
            for method, kw in methods:
                G1 = obj.event_series_analysis(method=method, **kw)
                G2 = obj2.event_series_analysis(method=method, **kw)
                if not np.allclose(G2, G1[np.ix_(perm, perm)], equal_nan=True,
                                   rtol=1e-6):
                    ctx.violation(
                        f"EventSeries.event_series_analysis({method})",
                        "exchanging two variables does not permute the "
                        "matrix", dict(key, kw=kw), {"lag": lag})
        # thresholding continuous data
        for _ in range(ctx.n(30, 200)):
            T, N = rng.randint(8, 30), rng.randint(1, 4)
            data = np.array([[rng.randint(-20, 20) / 4.0 for _ in range(N)]
                             for _ in range(T)])
            # tie-heavy data (zero-inflated, discrete counts): quantiles
            # coincide with each other and with the median
            if rng.random() < 0.4:
                data = np.array([[rng.choice([0, 0, 0, 0, 1, 2, 3]) * 1.0
                                  for _ in range(N)] for _ in range(T)])
            # direction left to the library: beyond the stated quantile means
            # above it for a level >= 1/2 and below it otherwise
            q = rng.randint(1, 19) / 20.0
            try:
                with warnings.catch_warnings():
                    warnings.simplefilter("ignore")
                    got = E.make_event_matrix(data,
                                              threshold_method="quantile",
                                              threshold_values=q)
                thr = np.quantile(data, q, axis=0)
                want = (data > thr) if q >= 0.5 else (data < thr)
                ctx.evaluations += 1
                if not np.array_equal(np.asarray(got).astype(bool), want):
                    ctx.violation("EventSeries.make_event_matrix(quantile)",
                                  "without threshold_types does not mark the "
                                  "samples beyond the stated quantile (above "
                                  "for a level >= 1/2, below otherwise)",
                                  {"data": data.tolist(), "quantile": q,
                                   "type": None}, {"default_type": True})
            except OSError:
                ctx.stat("threshold value rejected")
            for ttype in ("above", "below"):
                v = rng.randint(-10, 10) / 4.0
                try:
                    got = E.make_event_matrix(data, threshold_method="value",
                                              threshold_values=v,
                                              threshold_types=ttype)
                except OSError:
                    # documented rejection: the value lies outside the
                    # range of some variable
                    ctx.stat("threshold value rejected")
                    continue
                want = (data > v) if ttype == "above" else (data < v)
                ctx.evaluations += 1
                if not np.array_equal(np.asarray(got).astype(bool), want):
                    ctx.violation("EventSeries.make_event_matrix(value)",
                                  "does not mark exactly the samples beyond "
                                  "the value", {"data": data.tolist(),
                                                "value": v, "type": ttype},
                                  {})
                q = rng.randint(1, 19) / 20.0
                got = E.make_event_matrix(data, threshold_method="quantile",
                                          threshold_values=q,
                                          threshold_types=ttype)
                thr = np.quantile(data, q, axis=0)
                want = (data > thr) if ttype == "above" else (data < thr)
                if not np.array_equal(np.asarray(got).astype(bool), want):
                    ctx.violation("EventSeries.make_event_matrix(quantile)",
                                  "does not mark exactly the samples beyond "
                                  "the quantile", {"data": data.tolist(),
                                                   "quantile": q,
                                                   "type": ttype}, {})


def long_record(ctx):
    """a record longer than 2^15 samples, default time stamps: positions must
    not wrap (compared with the same call given explicit time stamps)"""
    E = ES()
    rng = ctx.rng
    T = 40000
    x, y = np.zeros(T, int), np.zeros(T, int)
    ex = sorted(rng.sample(range(32800, T - 10, 7), 5)) + [100]
    x[ex] = 1
    y[[min(T - 1, v + rng.choice([3, 10, 20])) for v in ex]] = 1
    t = np.arange(T, dtype=float)
    ctx.evaluations += 1
    ctx.stat("long record")
    with warnings.catch_warnings():
        warnings.simplefilter("ignore")
        a = E.event_synchronization(x, y, taumax=np.inf)
        b = E.event_synchronization(x, y, ts1=t, ts2=t, taumax=np.inf)
    if not (close(float(a[0]), float(b[0])) and close(float(a[1]),
                                                    float(b[1]))):
        ctx.violation("EventSeries.event_synchronization",
                      "default time stamps on a record of 40000 samples give "
                      "other strengths than explicit time stamps",
                      {"events_x": sorted(ex), "T": T,
                       "got": [float(a[0]), float(a[1])],
                       "want": [float(b[0]), float(b[1])]}, {"long": True})


def search(ctx):
    long_record(ctx)
    ctx.stats["rule"] = (
        "pairs of binary event series, T = 4..40, 0-8 events each (all pairs "
        "of series with >= 3 events for T = 6,7 sampled in thorough), integer "
        "time stamps regular or irregular, taumax in {inf,0,1,2,5}, lags; "
        "N x T event matrices with all symmetrisations and window types; "
        "value / quantile thresholds above / below; non-trivial = both series "
        "have at least 3 events; distinct by hash of the pair and time stamps")
    pairs = getattr(ctx, "_pairs", None)
    if pairs is None or ctx.scale > 1:
        pairs = gen_pairs(ctx)
    for x, y, ts in pairs:
        check_pair(ctx, x, y, ts)
    check_matrix(ctx)


def replay(ctx, rep):
    c = rep["case"]
    if "x" in c:
        check_pair(ctx, np.array(c["x"]), np.array(c["y"]),
                   None if c.get("ts") is None else np.array(c["ts"]))
    else:
        check_matrix(ctx)
