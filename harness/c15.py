"""C15 — surrogates preserve exactly what each method promises."""
import random as pyrandom
import warnings

import numpy as np

from common import qlit, listlit, blit

TRANSLATORS = [("pyx_twins", "TwinsK")]
MODELLED = [
    "timeseries/_ext/numerics.pyx: _twins_s, _twins_r (twin search), "
    "_twin_surrogates_s, _twin_surrogates_r (twin walk) — every statement "
    "matched against the model by the translator",
    "timeseries/surrogates.py: AAFT rank remapping, phase randomisation of "
    "the memoised spectrum; callers of the twin kernels in surrogates.py and "
    "recurrence_plot.py",
]

HEADER = """From Coq Require Import ZArith QArith List Bool Arith.
From PV.Model Require Import Surrogate.
Import ListNotations.
"""


def theorems(ctx):
    ctx.modelled += MODELLED
    ctx.generate(TRANSLATORS)
    ctx.theorems()
    if ctx.tier == "thorough":
        ctx.coqchk()


def nl(v):
    v = list(v)
    if not v:                      # an untyped [] cannot be elaborated
        return "(@nil nat)"
    return listlit([f"{int(x)}%nat" for x in v])


def ql(v):
    v = list(v)
    if not v:
        return "(@nil Q)"
    return listlit([qlit(float(x)) for x in v])


# --------------------------------------------------------------------------
# data
# --------------------------------------------------------------------------

def series(rng, N=None, T=None, kind=None):
    N = N or rng.choice([1, 1, 2, 3])
    T = T or rng.choice([7, 8, 9, 16, 21, 30, 33, 64, 97])
    kind = kind or rng.choice(["gauss", "ar", "sine", "ties"])
    g = np.random.default_rng(rng.randrange(2 ** 32))
    X = g.standard_normal((N, T))
    if kind == "ar":
        for t in range(1, T):
            X[:, t] += 0.8 * X[:, t - 1]
    elif kind == "sine":
        X = np.sin(np.arange(T)[None, :] * (0.3 + 0.2 * np.arange(N)[:, None])
                   ) + 0.05 * X
    elif kind == "ties":
        X = np.round(X * 2) / 2
    return X, kind


def amp(X, n_time):
    """amplitude spectrum at the non-zero, non-Nyquist frequencies"""
    A = np.abs(np.fft.rfft(X, axis=1))
    hi = A.shape[1] - (1 if n_time % 2 == 0 else 0)
    return A[:, 1:hi]


def row_perm(a, b):
    return a.shape == b.shape and np.array_equal(np.sort(a, axis=1),
                                                 np.sort(b, axis=1))


# --------------------------------------------------------------------------
# shuffle / Fourier / AAFT
# --------------------------------------------------------------------------

def check_fourier(ctx, X, kind):
    from pyunicorn.timeseries.surrogates import Surrogates
    N, T = X.shape
    key = {"data": X.tolist()}
    ctx.count(key, nontrivial=T >= 8)
    ctx.stat("fourier:" + kind)
    ctx.sample({"N": N, "T": T, "data": kind})
    ctx.stat("T odd" if T % 2 else "T even")
    tags = {"data": kind, "even": T % 2 == 0}
    np.random.seed(ctx.rng.randrange(2 ** 32))
    s = Surrogates(X.copy(), silence_level=3)
    A0 = amp(X, T)
    scale = max(1e-300, A0.max())
    calls = ctx.rng.randint(1, 5)
    order = [ctx.rng.choice(["white", "corr", "aaft", "raaft_amp",
                             "raaft_spec"]) for _ in range(calls + 2)]
    for c, what in enumerate(order):
        try:
            if what == "white":
                where = "Surrogates.white_noise_surrogates"
                out = s.white_noise_surrogates()
                ok = row_perm(np.asarray(out), X)
                msg = "is not a row-wise permutation of the data"
            elif what == "corr":
                where = "Surrogates.correlated_noise_surrogates"
                out = np.asarray(s.correlated_noise_surrogates())
                ok = out.shape == X.shape and \
                    np.abs(amp(out, T) - A0).max() <= 1e-8 * scale
                msg = "does not keep the amplitude spectrum"
            elif what == "aaft":
                where = "Surrogates.AAFT_surrogates"
                out = np.asarray(s.AAFT_surrogates())
                ok = row_perm(out, X)
                msg = "is not a row-wise permutation of the data"
            elif what == "raaft_amp":
                where = "Surrogates.refined_AAFT_surrogates(true_amplitudes)"
                out = np.asarray(s.refined_AAFT_surrogates(
                    ctx.rng.randint(1, 4), output="true_amplitudes"))
                ok = row_perm(out, X)
                msg = "is not a row-wise permutation of the data"
            else:
                where = "Surrogates.refined_AAFT_surrogates(true_spectrum)"
                out = np.asarray(s.refined_AAFT_surrogates(
                    ctx.rng.randint(1, 4), output="true_spectrum"))
                ok = out.shape == X.shape and \
                    np.abs(amp(out, T) - A0).max() <= 1e-8 * scale
                msg = "does not have the original amplitude spectrum"
        except Exception as e:
            ctx.violation(where, "raises", dict(
                key, calls=order[:c + 1], err=f"{type(e).__name__}: {e}"),
                dict(tags, kind="exception"))
            continue
        if not ok:
            ctx.violation(where, msg + f" (call {c + 1} on one object)",
                          dict(key, calls=order[:c + 1]),
                          dict(tags, repeated=c > 0))
        if not np.array_equal(np.asarray(s.original_data), X):
            ctx.violation(where, "changes the original data of the object",
                          dict(key, calls=order[:c + 1]), tags)
            return


# --------------------------------------------------------------------------
# twins
# --------------------------------------------------------------------------

def spec_twins(R, md):
    n = len(R)
    nR = R.sum(axis=1)
    out = [[] for _ in range(n)]
    for m in range(n):
        for x in range(n):
            if (x + md < m or m + md < x) and nR[m] != 1 \
                    and np.array_equal(R[m], R[x]):
                out[m].append(x)
    return out


def check_twins(ctx, X, kind, terms=None):
    from pyunicorn.timeseries.surrogates import Surrogates
    rng = ctx.rng
    N, T = X.shape
    dim = rng.choice([1, 2, 3])
    delay = rng.choice([1, 2])
    if T - (dim - 1) * delay < 4:
        dim, delay = 1, 1
    md = rng.choice([0, 1, 2, 3, 7])
    # data on a coarse grid and a binary32 threshold: many identical rows,
    # and no comparison sits on a rounding boundary
    Xg = np.round(X * rng.choice([1, 2, 4])) / 4
    thr = rng.choice([0.25, 0.5, 0.75, 1.0, 0.125])
    key = {"data": Xg.tolist(), "dimension": dim, "delay": delay,
           "threshold": thr, "min_dist": md}
    ctx.count(key, nontrivial=T >= 8)
    ctx.stat("twins:N=%d" % N)
    tags = {"series": N}
    s = Surrogates(Xg.copy(), silence_level=3)
    where = "Surrogates.twins"
    try:
        emb = Surrogates.embed_time_series_array(Xg.copy(), dim, delay,
                                                 silence_level=3) \
            if _static(Surrogates) else s.embed_time_series_array(
                Xg.copy(), dim, delay)
        s.embedding = emb
        tw = s.twins(thr, md)
    except Exception as e:
        ctx.violation(where, "raises", dict(key, err=f"{type(e).__name__}: "
                                            f"{e}"), dict(tags,
                                                          kind="exception"))
        return
    emb = np.asarray(emb, float)
    n = emb.shape[1]
    for i in range(N):
        D = np.abs(emb[i][:, None, :] - emb[i][None, :, :]).max(axis=2)
        R = (D <= thr).astype(int)
        want = spec_twins(R, md)
        got = [sorted(int(v) for v in t) for t in tw[i]]
        if got != want:
            ctx.violation(where, f"twins of series {i} are not the separated "
                          "states with identical recurrence neighbourhoods",
                          dict(key, series=i, got=got, want=want),
                          dict(tags, later_series=i > 0))
            break
        if terms is not None and n <= 14:
            terms["tw"].append(
                "(" + listlit([ql(r) for r in emb[i]]) + f", {dim}%nat, "
                f"{qlit(thr)}, {md}%nat, "
                + listlit([nl(t) for t in tw[i]]) + ")")
            terms["tw_meta"].append(dict(key, series=i))
    # twin surrogates of a single series, with the stream of random numbers
    # recorded: states, transitions, and the model's walk
    i = rng.randrange(N)
    x1 = Xg[i:i + 1] + 1e-3 * np.arange(T)[None, :] / T   # distinct values
    s1 = Surrogates(x1.copy(), silence_level=3)
    draws = []
    orig = pyrandom.random
    st = pyrandom.Random(rng.randrange(2 ** 32))

    def rec():
        u = st.random()
        draws.append(u)
        return u
    pyrandom.random = rec
    try:
        out = np.asarray(s1.twin_surrogates(dim, delay, thr, md))
    except Exception as e:
        ctx.violation("Surrogates.twin_surrogates", "raises",
                      dict(key, err=f"{type(e).__name__}: {e}"),
                      dict(tags, kind="exception"))
        return
    finally:
        pyrandom.random = orig
    tw1 = [[int(v) for v in t] for t in s1.twins(thr, md)[0]]
    n1 = T - (dim - 1) * delay
    idx = {float(v): k for k, v in enumerate(x1[0])}
    try:
        visited = [idx[float(v)] for v in out[0]]
    except KeyError:
        ctx.violation("Surrogates.twin_surrogates", "contains a value that is "
                      "not a state of the original series",
                      dict(key, surrogate=out.tolist()), tags)
        return
    bad = None
    if len(visited) != n1 or max(visited) >= n1:
        bad = "wrong length or a state outside the embedded series"
    else:
        for a, b_ in zip(visited, visited[1:]):
            succ = {a + 1} | {t + 1 for t in tw1[a]}
            if b_ not in succ and not any(v >= n1 for v in succ):
                bad = f"step {a} -> {b_} is neither the successor of {a} " \
                      f"nor of one of its twins {tw1[a]}"
                break
    if bad:
        ctx.violation("Surrogates.twin_surrogates", bad,
                      dict(key, visited=visited), tags)
    elif terms is not None and n1 <= 40:
        terms["walk"].append("(" + listlit([nl(t) for t in tw1]) + ", "
                             + ql(draws) + ", " + nl(visited) + ")")
        terms["walk_meta"].append(dict(key, draws=draws))


def check_twins_history(ctx, X, kind):
    """Repeated draws on one object with a change of the data in between
    (normalize_original_data, directly or through original_distribution):
    the twins and every step of the next surrogate must be those of the
    CURRENT data, computed here independently of the object's own twins()."""
    from pyunicorn.timeseries.surrogates import Surrogates
    rng = ctx.rng
    N, T = X.shape
    dim = rng.choice([1, 2, 3])
    delay = rng.choice([1, 2])
    if T - (dim - 1) * delay < 6:
        dim, delay = 1, 1
    md = rng.choice([0, 1, 2, 3])
    thr = rng.choice([0.25, 0.5, 1.0])
    i = rng.randrange(N)
    x1 = np.round(X[i:i + 1] * 2) / 4 + 3.0 \
        + 1e-3 * np.arange(T)[None, :] / T
    change = rng.choice(["normalize_original_data", "original_distribution",
                         "none"])
    key = {"data": x1.tolist(), "dimension": dim, "delay": delay,
           "threshold": thr, "min_dist": md, "between_draws": change}
    ctx.count(key, nontrivial=T >= 8)
    ctx.stat("twins history:" + change)
    s1 = Surrogates(x1.copy(), silence_level=3)
    where = "Surrogates.twin_surrogates"
    try:
        for _ in range(rng.randint(1, 2)):
            s1.twin_surrogates(dim, delay, thr, md)
        if change == "normalize_original_data":
            s1.normalize_original_data()
        elif change == "original_distribution":
            s1.original_distribution(lambda a, b: np.corrcoef(a), n_bins=4)
        out = np.asarray(s1.twin_surrogates(dim, delay, thr, md))
        tw_obj = [sorted(int(v) for v in t) for t in s1.twins(thr, md)[0]]
    except Exception as e:
        ctx.violation(where, "raises", dict(key, err=f"{type(e).__name__}: "
                                            f"{e}"), {"kind": "exception"})
        return
    data = np.asarray(s1.original_data, float)[0]
    n1 = T - (dim - 1) * delay
    emb = np.stack([data[k * delay:k * delay + n1] for k in range(dim)],
                   axis=1)
    D = np.abs(emb[:, None, :] - emb[None, :, :]).max(axis=2)
    # a distance within rounding of the threshold decides nothing
    if np.any(np.abs(D - thr) < 1e-9):
        ctx.stat("twins history: distance on the threshold (skipped)")
        return
    want = spec_twins((D <= thr).astype(int), md)
    if tw_obj != want:
        ctx.violation("Surrogates.twins", "after " + change + " and a new "
                      "draw the twins are not those of the current data",
                      dict(key, got=tw_obj, want=want), {"history": True})
        return
    idx = {float(v): k for k, v in enumerate(data)}
    try:
        visited = [idx[float(v)] for v in out[0]]
    except KeyError:
        ctx.violation(where, "contains a value that is not a state of the "
                      "current data", dict(key, surrogate=out.tolist()),
                      {"history": True})
        return
    for a, b_ in zip(visited, visited[1:]):
        succ = {a + 1} | {t + 1 for t in want[a]} if a < n1 else set()
        if b_ not in succ and not any(v >= n1 for v in succ):
            ctx.violation(where, f"step {a} -> {b_} is neither the successor "
                          f"of {a} nor of one of its twins {want[a]} "
                          "(twins of the current data)",
                          dict(key, visited=visited), {"history": True})
            return


def _static(cls):
    import inspect
    return isinstance(inspect.getattr_static(cls, "embed_time_series_array"),
                      staticmethod)


def check_rp_twins(ctx, terms=None):
    from pyunicorn.timeseries import RecurrencePlot
    rng = ctx.rng
    T = rng.choice([8, 12, 20, 30])
    g = np.random.default_rng(rng.randrange(2 ** 32))
    x = np.round(np.sin(np.arange(T) * rng.choice([0.5, 0.9, 1.3]))
                 * 4 + 0.3 * g.standard_normal(T)) / 4
    x = x + 1e-3 * np.arange(T) / T
    md = rng.choice([0, 1, 2, 5])
    dim = rng.choice([1, 2])
    thr = rng.choice([0.25, 0.5, 1.0])
    key = {"series": x.tolist(), "dim": dim, "threshold": thr, "min_dist": md}
    ctx.evaluations += 1
    ctx.stat("rp twins")
    try:
        rp = RecurrencePlot(x.copy(), threshold=thr, dim=dim, tau=1,
                            metric="supremum", silence_level=3)
        R = np.asarray(rp.recurrence_matrix()).astype(int)
        tw = rp.twins(md)
    except Exception as e:
        ctx.violation("RecurrencePlot.twins", "raises",
                      dict(key, err=f"{type(e).__name__}: {e}"),
                      {"kind": "exception"})
        return
    n = len(R)
    got = [sorted(int(v) for v in t) for t in tw[:n]]
    want = spec_twins(R, md)
    if got != want:
        ctx.violation("RecurrencePlot.twins", "twins are not the separated "
                      "states with identical recurrence neighbourhoods",
                      dict(key, got=got, want=want), {})
        return
    if terms is not None and n <= 16:
        terms["twr"].append(
            "(" + listlit([listlit([blit(bool(v)) for v in r]) for r in R])
            + f", {md}%nat, " + listlit([nl(t) for t in tw[:n]]) + ")")
        terms["twr_meta"].append(key)
    try:
        out = np.asarray(rp.twin_surrogates(n_surrogates=2, min_dist=md))
    except Exception as e:
        ctx.violation("RecurrencePlot.twin_surrogates", "raises",
                      dict(key, err=f"{type(e).__name__}: {e}"),
                      {"kind": "exception"})
        return
    emb = np.asarray(rp.embedding, float)
    rows = {tuple(r): k for k, r in enumerate(emb)}
    for sgt in out:
        try:
            visited = [rows[tuple(r)] for r in np.asarray(sgt, float)]
        except KeyError:
            ctx.violation("RecurrencePlot.twin_surrogates", "contains a state "
                          "that is not an original state", key, {})
            return
        for a, b_ in zip(visited, visited[1:]):
            succ = {a + 1} | {t + 1 for t in got[a]}
            if b_ not in succ and not any(v >= n for v in succ):
                ctx.violation("RecurrencePlot.twin_surrogates",
                              f"step {a} -> {b_} is neither the successor of "
                              "the state nor of one of its twins",
                              dict(key, visited=visited), {})
                return


def run_all(ctx, terms=None):
    rng = ctx.rng
    for T in (97, 30, 7):                       # prime, even, short odd
        X, kind = series(rng, N=2, T=T)
        check_fourier(ctx, X, kind)
    for _ in range(ctx.n(25, 200)):
        X, kind = series(rng)
        check_fourier(ctx, X, kind)
    for _ in range(ctx.n(25, 200)):
        X, kind = series(rng, N=rng.choice([1, 2, 3]),
                         T=rng.choice([8, 10, 12, 14, 20, 30]),
                         kind=rng.choice(["sine", "ar", "gauss"]))
        check_twins(ctx, X, kind, terms)
    for _ in range(ctx.n(25, 150)):
        X, kind = series(rng, N=rng.choice([1, 2]),
                         T=rng.choice([12, 16, 20, 30]),
                         kind=rng.choice(["sine", "ar", "gauss"]))
        check_twins_history(ctx, X, kind)
    for _ in range(ctx.n(15, 100)):
        check_rp_twins(ctx, terms)


def correspondence(ctx):
    terms = {k: [] for k in ("tw", "tw_meta", "twr", "twr_meta", "walk",
                             "walk_meta")}
    with warnings.catch_warnings():
        warnings.simplefilter("ignore")
        run_all(ctx, terms)
    ctx._done = True
    types = {"tw": "list (list Q) * nat * Q * nat * list (list nat)",
             "twr": "list (list bool) * nat * list (list nat)",
             "walk": "list (list nat) * list Q * list nat"}
    for k, fn, chunk in (("tw", "check_twins", 30), ("twr", "check_twins_r",
                                                     30),
                         ("walk", "check_walk", 40)):
        fails = ctx.coq_failing("c15_" + k, HEADER, terms[k], fn, chunk=chunk,
                                case_type=types[k])
        for i in fails or []:
            ctx.corr(f"surrogate model != implementation ({k})",
                     terms[k + "_meta"][i], None)
        ctx.traces += len(terms[k])
        ctx.stats["c_" + k] = len(terms[k])


def search(ctx):
    ctx.stats["rule"] = (
        "series: Gaussian, AR(1), noisy sines, tied values; N = 1..3; lengths "
        "7..97 incl. odd, even and prime; 3..7 calls in random order on one "
        "object (shuffle, Fourier, AAFT, refined AAFT with 1..4 iterations, "
        "both outputs): exact row-wise multiset equality, amplitude spectra "
        "at all non-zero non-Nyquist frequencies to 1e-8; twins of every "
        "series against the brute-force definition (grid-valued data, "
        "binary32 thresholds, dimension 1..3, delay 1..2, min_dist 0..7) for "
        "Surrogates and RecurrencePlot; twin surrogates with the stream of "
        "random numbers recorded: original states only, every step to the "
        "successor of the state or of a twin. Non-trivial = length >= 8.")
    if not getattr(ctx, "_done", False) or ctx.scale > 1:
        with warnings.catch_warnings():
            warnings.simplefilter("ignore")
            run_all(ctx)


def replay(ctx, rep):
    with warnings.catch_warnings():
        warnings.simplefilter("ignore")
        c = rep["case"]
        if "calls" in c:
            check_fourier(ctx, np.array(c["data"], float), "replay")
        else:
            run_all(ctx)
