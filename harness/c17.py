"""C17 — random models and rewirings keep their documented invariants."""
import warnings

import numpy as np

import graphs
from common import qlit, blit, listlit, run_forked

MODELLED = [
    "core/_ext/numerics.pyx: _randomly_rewire_geomodel (I, II, III incl. "
    "cond_len_c1 / cond_len_c2 / cond_deg_corr), _randomlyRewireCrossLinks",
    "SpatialNetwork.randomly_rewire_geomodel_I/II/III, "
    "InteractingNetworks.RandomlyRewireCrossLinks",
]

HEADER = """From Coq Require Import QArith List Bool Arith.
From PV.Model Require Import Rewire.
Import ListNotations.
Fixpoint eqlb (a b : list bool) : bool :=
  match a, b with [], [] => true | x :: a', y :: b' => Bool.eqb x y && eqlb a' b' | _, _ => false end.
Fixpoint eqmb (a b : list (list bool)) : bool :=
  match a, b with [], [] => true | x :: a', y :: b' => eqlb x y && eqmb a' b' | _, _ => false end.
Definition gm_of (k : nat) := match k with 1 => GeoI | 2 => GeoII | _ => GeoIII end.
(* model number, A, edges, D, eps, degrees, picks, (#successes, final A) *)
Definition check_geo (c : nat * list (list bool) * list (nat*nat) * list (list Q) * Q * list nat *
                         list (nat*nat) * (nat * list (list bool))) : bool :=
  let '(k, A, E, D, eps, deg, picks, (cnt, A')) := c in
  let n := length A in
  let '(st, got) := geo_run (gm_of k) (qfun D) eps (fun v => nth v deg 0%nat)
                            {| gA := mfun A; gE := E |} picks in
  Nat.eqb got cnt && eqmb (mlist n n (gA st)) A'.
(* cross block, cross links, picks, (#swaps, final block) *)
Definition check_cross (c : list (list bool) * list (nat*nat) * list (nat*nat) * (nat * list (list bool))) : bool :=
  let '(C, L, picks, (cnt, C')) := c in
  let n := length C in let m := length (nth 0 C []) in
  let '(st, got) := cross_run {| cC := mfun C; cL := L |} picks in
  Nat.eqb got cnt && eqmb (mlist n m (cC st)) C'.
"""


TRANSLATORS = [('pyx_rewire', 'RewireK')]


def theorems(ctx):
    ctx.modelled += MODELLED
    ctx.generate(TRANSLATORS)
    ctx.theorems()
    if ctx.tier == "thorough":
        ctx.coqchk()


class Stream:
    """replacement for numpy.random.random / randint fed from a list"""

    def __init__(self, values):
        self.values = list(values)
        self.used = 0

    def __call__(self, *a, **k):
        if self.used >= len(self.values):
            raise RuntimeError("random stream exhausted")
        v = self.values[self.used]
        self.used += 1
        return v


def bm(A):
    return listlit([listlit([blit(bool(v)) for v in r]) for r in A])


def pl(ps):
    return listlit([f"({a}%nat, {b}%nat)" for a, b in ps])


def spatial_net(A, rng):
    from pyunicorn.core.grid import Grid
    from pyunicorn.core.spatial_network import SpatialNetwork
    n = len(A)
    g = Grid(np.arange(3), np.array([[float(rng.randint(0, 9))
                                      for _ in range(n)] for _ in range(2)]),
             silence_level=3)
    return SpatialNetwork(g, adjacency=A, silence_level=3)


def model_geo(k, A, edges, D, eps, deg, picks):
    """the model, in Python, only to know how many picks succeed"""
    A = A.copy()
    edges = [tuple(e) for e in edges]
    cnt, last = 0, 0

    def lt(a, b, c, d):
        return abs(D[a, b] - D[c, d]) < eps
    for idx, (e1, e2) in enumerate(picks):
        s, t = edges[e1]
        kk, l = edges[e2]
        ok = (s != kk and s != l and t != kk and t != l
              and A[s, l] == 0 and A[t, kk] == 0)
        if ok:
            c1 = (lt(s, t, kk, t) and lt(kk, l, s, l)) or \
                 (lt(s, t, s, l) and lt(kk, l, kk, t))
            c2 = lt(s, t, s, l) and lt(t, s, t, kk) and lt(kk, l, kk, t) \
                and lt(l, kk, l, s)
            if k == 1:
                ok = c1
            elif k == 2:
                ok = c2
            else:
                ok = c2 and deg[s] == deg[kk] and deg[t] == deg[l]
        if ok:
            A[s, t] = A[t, s] = A[kk, l] = A[l, kk] = 0
            A[s, l] = A[l, s] = A[t, kk] = A[kk, t] = 1
            edges[e1], edges[e2] = (s, l), (kk, t)
            cnt += 1
            last = idx + 1
    return cnt, last


def correspondence(ctx):
    import numpy.random as rd
    import pyunicorn.core._ext.numerics as cnum
    from pyunicorn.core.interacting_networks import InteractingNetworks
    rng = ctx.rng
    geo_t, geo_m, cr_t, cr_m = [], [], [], []
    orig_random, orig_randint = rd.random, cnum.randint
    with warnings.catch_warnings():
        warnings.simplefilter("ignore")
        for _ in range(ctx.n(60, 400)):
            n = rng.randint(5, 9)
            A = graphs.random_graph(rng, n, 0.3 + 0.3 * rng.random())
            if A.sum() < 4:
                continue
            net = spatial_net(A, rng)
            E = int(net.n_links)
            edges = [tuple(e) for e in net.graph.get_edgelist()]
            D = np.array([[float(rng.randint(1, 4)) for _ in range(n)]
                          for _ in range(n)])
            D = np.triu(D, 1) + np.triu(D, 1).T
            eps = rng.choice([0.5, 1.5, 2.5, 10.0])
            k = rng.choice([1, 2, 3])
            deg = [int(v) for v in net.degree()]
            picks = [(rng.randrange(E), rng.randrange(E)) for _ in range(40)]
            cnt, last = model_geo(k, A, edges, D, eps, deg, picks)
            if cnt == 0:
                ctx.stat("geo_no_success")
                continue
            used = picks[:last]
            vals = []
            for e1, e2 in used:
                vals += [(e1 + 0.5) / E, (e2 + 0.5) / E]
            st = Stream(vals)
            try:
                rd.random = st
                getattr(net, "randomly_rewire_geomodel_" + "I" * k)(
                    D, cnt, eps)
            except Exception as e:
                ctx.corr("randomly_rewire_geomodel raises",
                         {"A": A.tolist(), "model": k},
                         f"{type(e).__name__}: {e}")
                continue
            finally:
                rd.random = orig_random
            A2 = np.asarray(net.adjacency).astype(int)
            geo_t.append(
                f"({k}%nat, {bm(A)}, {pl(edges)}, "
                f"{listlit([listlit([qlit(float(v)) for v in r]) for r in D])}"
                f", {qlit(eps)}, {listlit([str(d) + '%nat' for d in deg])}, "
                f"{pl(used)}, ({cnt}%nat, {bm(A2)}))")
            geo_m.append({"A": A.tolist(), "model": k, "eps": eps,
                          "picks": used})
            ctx.stat("geo_model=%d" % k)
        for _ in range(ctx.n(60, 400)):
            n = rng.randint(4, 9)
            A = graphs.random_graph(rng, n, 0.3 + 0.4 * rng.random())
            perm = list(range(n))
            rng.shuffle(perm)
            k1 = rng.randint(1, n - 1)
            l1, l2 = perm[:k1], perm[k1:]
            net = InteractingNetworks(adjacency=A, silence_level=3)
            C = np.asarray(net.cross_adjacency(l1, l2)).astype(int)
            L = [tuple(int(v) for v in p) for p in np.array(C.nonzero()).T]
            ncl = len(L)
            if ncl < 2:
                continue
            swaps = rng.choice([0.5, 1.0, 2.0])
            nsw = int(swaps * ncl)
            if nsw == 0:
                continue
            # simulate to know how many picks are consumed
            Cs, Ls = C.copy(), list(L)
            used, done = [], 0
            for _try in range(400):
                if done == nsw:
                    break
                e1, e2 = rng.randrange(ncl), rng.randrange(ncl)
                used.append((e1, e2))
                a, b = Ls[e1]
                c, d = Ls[e2]
                if Cs[a, d] or Cs[c, b]:
                    continue
                Cs[a, b] = Cs[c, d] = 0
                Cs[a, d] = Cs[c, b] = 1
                Ls[e1], Ls[e2] = (a, d), (c, b)
                done += 1
            if done < nsw:
                ctx.stat("cross_not_enough_swaps")
                continue
            vals = []
            for e1, e2 in used:
                vals += [e1, e2]
            st = Stream(vals)
            try:
                cnum.randint = st
                new = InteractingNetworks.RandomlyRewireCrossLinks(
                    net, l1, l2, swaps)
            except Exception as e:
                ctx.corr("RandomlyRewireCrossLinks raises",
                         {"A": A.tolist(), "l1": l1, "l2": l2},
                         f"{type(e).__name__}: {e}")
                continue
            finally:
                cnum.randint = orig_randint
            C2 = np.asarray(new.cross_adjacency(l1, l2)).astype(int)
            cr_t.append(f"({bm(C)}, {pl(L)}, {pl(used)}, "
                        f"({nsw}%nat, {bm(C2)}))")
            cr_m.append({"A": A.tolist(), "l1": l1, "l2": l2, "picks": used})
    for name, terms, fn, meta in (("geo", geo_t, "check_geo", geo_m),
                                  ("cross", cr_t, "check_cross", cr_m)):
        fails = ctx.coq_failing("c17_" + name, HEADER, terms, fn, chunk=100)
        for i in fails or []:
            ctx.corr(f"rewiring model != implementation ({name})", meta[i],
                     None)
        ctx.traces += len(terms)
        ctx.stats["c_" + name] = len(terms)


# --------------------------------------------------------------------------
# P: invariants on the implementation with its own random numbers
# --------------------------------------------------------------------------

def simple(A):
    return np.array_equal(A, A.T) and not np.diag(A).any() and \
        set(np.unique(A)) <= {0, 1}


def search(ctx):
    from pyunicorn.core.network import Network
    from pyunicorn.core.interacting_networks import InteractingNetworks
    ctx.stats["rule"] = (
        "random graphs n=5..12 with random symmetric integer distance "
        "matrices, tolerances, iteration counts, models I-III; group "
        "bipartitions for cross-link rewiring / setting; own Barabasi-Albert, "
        "igraph-backed ErdosRenyi / Configuration / WattsStrogatz / "
        "randomly_rewire; NumPy seeded per case; non-trivial = at least 4 "
        "links; distinct by hash of (graph, parameters, seed)")
    rng = ctx.rng
    with warnings.catch_warnings():
        warnings.simplefilter("ignore")
        for _ in range(ctx.n(60, 400)):
            seed = rng.randrange(2 ** 31)
            np.random.seed(seed)
            n = rng.randint(5, 12)
            A = graphs.random_graph(rng, n, 0.2 + 0.5 * rng.random())
            key = {"A": A.tolist(), "seed": seed}
            ctx.count(key, nontrivial=A.sum() >= 8)
            if A.sum() >= 8:
                D = np.array([[float(rng.randint(1, 4)) for _ in range(n)]
                              for _ in range(n)])
                D = np.triu(D, 1) + np.triu(D, 1).T
                eps = rng.choice([0.5, 1.5, 10.0])
                for k in (1, 2, 3):
                    net = spatial_net(A, rng)
                    deg0 = np.asarray(net.degree()).copy()
                    # only ask for as many iterations as are surely possible
                    import c17 as me
                    edges = [tuple(e) for e in net.graph.get_edgelist()]
                    E = len(edges)
                    picks = [(rng.randrange(E), rng.randrange(E))
                             for _ in range(200)]
                    cnt, _ = me.model_geo(k, A, edges, D, eps,
                                          [int(v) for v in deg0], picks)
                    if cnt < 3:
                        ctx.stat("geo_skipped_few_possible")
                        continue
                    it = rng.randint(1, min(cnt // 3 + 1, 5))
                    ctx.stat("geo_model=%d" % k)
                    lens0 = sorted(D[A == 1].tolist())
                    # the kernels retry until enough attempts succeed and
                    # never return when no admissible move is left; compiled
                    # loops cannot be interrupted, so they run in a child
                    def job(net=net, k=k, it=it):
                        getattr(net, "randomly_rewire_geomodel_"
                                + "I" * k)(D, it, eps)
                        return np.asarray(net.adjacency).astype(int)
                    st, A2 = run_forked(job, 4)
                    if st != "ok":
                        ctx.stat("geo_" + st)
                        continue
                    k2 = dict(key, model=k, eps=eps, iterations=it)
                    if not simple(A2):
                        ctx.violation(f"randomly_rewire_geomodel_{'I' * k}",
                                      "result is not a simple undirected "
                                      "graph", k2, {})
                    if not np.array_equal(A2.sum(axis=1), deg0):
                        ctx.violation(f"randomly_rewire_geomodel_{'I' * k}",
                                      "a node's degree changed", k2, {})
                    lens1 = sorted(D[A2 == 1].tolist())
                    if max(abs(a - b) for a, b in zip(lens0, lens1)) >= \
                            2 * eps * it + 1e-9 and eps < 1:
                        ctx.violation(f"randomly_rewire_geomodel_{'I' * k}",
                                      "link lengths moved by more than the "
                                      "tolerance", k2, {})
                    if k == 3:
                        def pairs(M):
                            dd = M.sum(axis=1)
                            return sorted(tuple(sorted((dd[i], dd[j])))
                                          for i in range(n)
                                          for j in range(i) if M[i, j])
                        if pairs(A) != pairs(A2):
                            ctx.violation("randomly_rewire_geomodel_III",
                                          "degree pairs of links changed",
                                          k2, {})
            # cross links
            perm = list(range(n))
            rng.shuffle(perm)
            k1 = rng.randint(1, n - 1)
            l1, l2 = perm[:k1], perm[k1:]
            net = InteractingNetworks(adjacency=A, silence_level=3)
            C = np.asarray(net.cross_adjacency(l1, l2))
            kc = dict(key, l1=l1, l2=l2)
            new = None
            Ci = C.astype(int)
            links = list(zip(*Ci.nonzero()))
            admissible = any(not Ci[a, d] and not Ci[c, b]
                             for (a, b) in links for (c, d) in links)
            if not admissible:
                ctx.stat("cross_no_admissible_swap")
            if C.sum() >= 2 and C.sum() < C.size and admissible:
                sw = rng.choice([0.5, 1.0])
                st, A2 = run_forked(lambda: np.asarray(
                    InteractingNetworks.RandomlyRewireCrossLinks(
                        net, l1, l2, sw).adjacency).astype(int), 4)
                if st == "ok":
                    new = InteractingNetworks(adjacency=A2, silence_level=3)
                else:
                    ctx.stat("cross_rewire_" + st)
            if new is not None:
                ctx.evaluations += 1
                if not simple(A2):
                    ctx.violation("RandomlyRewireCrossLinks",
                                  "result is not simple undirected", kc, {})
                if not (np.array_equal(A2.sum(axis=1), A.sum(axis=1))
                        and np.array_equal(
                            new.cross_degree(l1, l2), net.cross_degree(l1, l2))
                        and np.array_equal(
                            new.cross_degree(l2, l1),
                            net.cross_degree(l2, l1))):
                    ctx.violation("RandomlyRewireCrossLinks",
                                  "a degree / cross degree changed", kc, {})
                if not (np.array_equal(A2[np.ix_(l1, l1)], A[np.ix_(l1, l1)])
                        and np.array_equal(A2[np.ix_(l2, l2)],
                                           A[np.ix_(l2, l2)])):
                    ctx.violation("RandomlyRewireCrossLinks",
                                  "links inside a group changed", kc, {})
            for fn in ("RandomlySetCrossLinks", "RandomlySetCrossLinks_sparse"):
                want = rng.randint(0, len(l1) * len(l2))
                st, A2 = run_forked(lambda: np.asarray(getattr(
                    InteractingNetworks, fn)(
                        net, l1, l2, number_cross_links=want).adjacency)
                    .astype(int), 10)
                if st != "ok":
                    ctx.stat(fn + "_" + st)
                    continue
                ctx.evaluations += 1
                if not simple(A2) or \
                        int(A2[np.ix_(l1, l2)].sum()) != want:
                    ctx.violation(fn, "wrong number of cross links or not "
                                  "simple", dict(kc, requested=want,
                                                 got=int(A2[np.ix_(l1, l2)]
                                                         .sum())), {})
                if not (np.array_equal(A2[np.ix_(l1, l1)], A[np.ix_(l1, l1)])
                        and np.array_equal(A2[np.ix_(l2, l2)],
                                           A[np.ix_(l2, l2)])):
                    ctx.violation(fn, "links inside a group changed", kc, {})
            # model generators
            N, m = rng.randint(5, 30), rng.randint(1, 4)
            if m < N:
                st, B = run_forked(lambda: np.asarray(
                    Network.BarabasiAlbert(N, m).todense()), 20)
                if st != "ok":
                    ctx.violation("Network.BarabasiAlbert", st,
                                  {"N": N, "m": m, "seed": seed}, {})
                    continue
                ctx.evaluations += 1
                if not simple(B) or int(B.sum()) // 2 != m * (N - m):
                    ctx.violation("Network.BarabasiAlbert",
                                  "not simple or wrong link count",
                                  {"N": N, "m": m, "seed": seed,
                                   "links": int(B.sum()) // 2}, {})
            nl = rng.randint(0, N * (N - 1) // 2)
            G = Network.ErdosRenyi(N, n_links=nl, silence_level=3)
            if not simple(np.asarray(G)) or int(np.asarray(G).sum()) // 2 != nl:
                ctx.violation("Network.ErdosRenyi(n_links)",
                              "not simple or wrong link count",
                              {"N": N, "n_links": nl}, {})
            deg = [rng.randint(1, 4) for _ in range(N)]
            if sum(deg) % 2:
                deg[0] += 1
            try:
                G = np.asarray(Network.Configuration(deg))
                if not simple(G) or np.any(G.sum(axis=1) > np.array(deg)):
                    ctx.violation("Network.Configuration",
                                  "not simple or a degree exceeds the request",
                                  {"degree": deg}, {})
            except Exception:
                ctx.stat("configuration_not_graphical")
            G = np.asarray(Network.WattsStrogatz(N, 2, rng.random()))
            if N > 5 and not simple(G):
                ctx.violation("Network.WattsStrogatz", "not simple",
                              {"N": N}, {})
            if A.sum() >= 8:
                net = Network(adjacency=A, silence_level=3)
                net.randomly_rewire(rng.randint(1, 10))
                A2 = np.asarray(net.adjacency).astype(int)
                if not simple(A2) or not np.array_equal(A2.sum(axis=1),
                                                        A.sum(axis=1)):
                    ctx.violation("Network.randomly_rewire",
                                  "not simple or a degree changed", key, {})
            ctx.sample({"n": n, "links": int(A.sum()) // 2, "seed": seed})


def replay(ctx, rep):
    search(ctx)
