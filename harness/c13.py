"""C13 — data windows select exactly the requested samples; anomalies sum."""
import warnings

import numpy as np

from common import qlit, blit, listlit

MODELLED = ["Data.set_window / set_global_window / observable / grid",
            "ClimateData.phase_mean / anomaly / phase_indices"]

HEADER = """From Coq Require Import QArith Qabs List Bool Arith.
From PV.Base Require Import F32.
From PV.Model Require Import Window.
Import ListNotations.
Fixpoint eqlq (a b : list Q) : bool :=
  match a, b with [], [] => true | x :: a', y :: b' => Qeq_bool x y && eqlq a' b' | _, _ => false end.
Fixpoint eqmq (a b : list (list Q)) : bool :=
  match a, b with [], [] => true | x :: a', y :: b' => eqlq x y && eqmq a' b' | _, _ => false end.
Fixpoint eqln (a b : list nat) : bool :=
  match a, b with [], [] => true | x :: a', y :: b' => Nat.eqb x y && eqln a' b' | _, _ => false end.
Definition close (m x : Q) : bool := Qle_bool (Qabs (m - x)) (1 # 1000000000)%Q.
Fixpoint closel (a b : list Q) : bool :=
  match a, b with [], [] => true | x :: a', y :: b' => close x y && closel a' b' | _, _ => false end.
(* times, lat, lon, bounds (tlo,thi,latlo,lathi,lonlo,lonhi), observable, windowed observable *)
Definition check_window (c : list Q * list Q * list Q * (Q*Q*Q*Q*Q*Q) * list (list Q) * list (list Q)) : bool :=
  let '(ts, lat, lon, (tlo, thi, alo, ahi, olo, ohi), obs, w) := c in
  eqmq (window (axis_mask tlo thi ts) (space_mask false alo ahi olo ohi lat lon) obs) w.
(* one node's series, cycle, anomaly, phase means *)
Definition check_anom (c : list Q * nat * list Q * list Q) : bool :=
  let '(x, cy, an, pm) := c in
  closel (anomaly x cy) an && closel (map (phase_mean x cy) (seq 0 cy)) pm.
Definition check_pidx (c : nat * nat * list (list nat)) : bool :=
  let '(n, cy, rows) := c in
  let fix go i rs := match rs with [] => true | r :: rs' => eqln (phase_indices n cy i) r && go (S i) rs' end in
  go 0%nat rows.
"""


TRANSLATORS = [('py_window_facts', 'WindowK')]


def theorems(ctx):
    ctx.modelled += MODELLED
    ctx.generate(TRANSLATORS)
    ctx.theorems()
    if ctx.tier == "thorough":
        ctx.coqchk()


def ql(v):
    return qlit(float(v))


def lq(xs):
    return listlit([ql(v) for v in xs])


def mq(M):
    return listlit([lq(r) for r in M])


def gen(ctx):
    rng = ctx.rng
    out = []
    for _ in range(ctx.n(80, 600)):
        n, T = rng.randint(2, 6), rng.randint(6, 30)
        obs = np.array([[float(rng.randint(-9, 9)) for _ in range(n)]
                        for _ in range(T)])
        # counts / packed records arrive with an integer dtype
        # (float32 data are processed in float32: not compared here, the
        # references and the model are exact)
        obs = obs.astype(rng.choice(["float64", "float64", "float64",
                                     "int32", "int16", "int64"]))
        # station coordinates and decimal years are not binary32 numbers:
        # the grid stores their rounded values
        lat = np.array([rng.randrange(-80, 81, 5)
                        + rng.choice([0, 0.5, 0.1, 0.4, -0.3])
                        for _ in range(n)], dtype=float)
        lon = np.array([rng.randrange(-170, 171, 5)
                        + rng.choice([0, 0.25, 0.2, 0.7])
                        for _ in range(n)], dtype=float)
        # time axes counted from a distant epoch (hours since 1900 ...): a
        # window is narrow relative to its bounds, yet its bounds differ
        t, c = [], rng.choice([0.0, 0.0, 0.0, 2.0 ** 20, 1.5e6])
        step12 = rng.random() < 0.25          # monthly steps in years
        if step12:
            c = 1950.0
        for k in range(T):
            c = (1950.0 + (k + 1) / 12.0) if step12 else \
                c + rng.choice([1.0, 1.0, 2.0, 0.5])
            t.append(c)
        wins = []
        for _ in range(rng.randint(1, 4)):
            kind = rng.choice(["box", "box", "tall", "lateq", "loneq",
                               "global", "onsample", "narrowlat",
                               "narrowlon"])
            t0, t1 = sorted([rng.choice(t), rng.choice(t)])
            la = sorted([rng.choice(list(lat)) - rng.choice([0, 2.5]),
                         rng.choice(list(lat)) + rng.choice([0, 2.5])])
            lo = sorted([rng.choice(list(lon)) - rng.choice([0, 2.5]),
                         rng.choice(list(lon)) + rng.choice([0, 2.5])])
            if kind == "tall":
                t0 = t1
            elif kind == "lateq":
                la = [la[0], la[0]]
            elif kind == "loneq":
                lo = [lo[0], lo[0]]
            elif kind == "narrowlat":       # distinct, nearly equal bounds
                x = float(rng.choice(list(lat)))
                la = [x - 1e-4, x + 1e-4]
            elif kind == "narrowlon":
                x = float(rng.choice(list(lon)))
                lo = [x - 1e-4, x + 1e-4]
            elif kind == "global":
                t0 = t1 = la[0] = la[1] = lo[0] = lo[1] = 0.0
            wins.append({"time_min": t0, "time_max": t1, "lat_min": la[0],
                         "lat_max": la[1], "lon_min": lo[0],
                         "lon_max": lo[1], "kind": kind})
        out.append({"obs": obs, "lat": lat, "lon": lon, "t": np.array(t),
                    "cycle": rng.choice([2, 3, 4, 5, 7, 12]),
                    "anomalies": rng.random() < 0.25, "wins": wins})
    return out


def build(c, window=None):
    from pyunicorn.core.geo_grid import GeoGrid
    from pyunicorn.climate.climate_data import ClimateData
    g = GeoGrid(c["t"], c["lat"], c["lon"], silence_level=3)
    return ClimateData(c["obs"].copy(), g, time_cycle=c["cycle"],
                       anomalies=c["anomalies"], window=window,
                       silence_level=3)


def brute_window(c, w, per_axis):
    t, la, lo = (c["t"].astype("float32"), c["lat"].astype("float32"),
                 c["lon"].astype("float32"))
    if w["time_min"] == w["time_max"]:
        tm = np.ones(len(t), bool)
    else:
        tm = (t >= w["time_min"]) & (t <= w["time_max"])
    lat_all = w["lat_min"] == w["lat_max"]
    lon_all = w["lon_min"] == w["lon_max"]
    lam = np.ones(len(la), bool) if lat_all else \
        (la >= w["lat_min"]) & (la <= w["lat_max"])
    lom = np.ones(len(lo), bool) if lon_all else \
        (lo >= w["lon_min"]) & (lo <= w["lon_max"])
    if per_axis:
        sm = lam & lom
    else:
        sm = np.ones(len(la), bool) if (lat_all or lon_all) else lam & lom
    return tm, sm


def run_case(ctx, c, terms=None):
    key = {"obs": c["obs"].tolist(), "lat": c["lat"].tolist(),
           "lon": c["lon"].tolist(), "t": c["t"].tolist(),
           "cycle": c["cycle"], "anomalies": c["anomalies"]}
    ctx.count(key, nontrivial=True)
    ctx.stat("cycle=%d" % c["cycle"])
    ctx.stat("anomalies=%s" % c["anomalies"])
    with warnings.catch_warnings():
        warnings.simplefilter("ignore")
        try:
            d = build(c)
        except Exception as e:
            ctx.violation("ClimateData", "raises", dict(
                key, err=f"{type(e).__name__}: {e}"), {"kind": "exception"})
            return
        full = d.observable().copy()
        try:                         # populate the caches on the global view
            d.anomaly()
            d.phase_mean()
        except Exception:
            pass
        seq = []
        for w in c["wins"]:
            seq.append(w)
            if ctx.rng.random() < 0.4:
                seq.append(None)     # set_global_window() in between
        for w in seq + [None]:
            ctx.stat("window=" + (w["kind"] if w else "restore"))
            wk = dict(key, window=w)
            try:
                if w is None:
                    d.set_global_window()
                    tm = np.ones(len(c["t"]), bool)
                    sm = np.ones(len(c["lat"]), bool)
                    sm_axis = sm
                else:
                    ww = {k: v for k, v in w.items() if k != "kind"}
                    d.set_window(ww)
                    tm, sm_axis = brute_window(c, w, per_axis=True)
                    _, sm = brute_window(c, w, per_axis=False)
            except Exception as e:
                ctx.stat("window_raises")
                continue
            obs = d.observable()
            want_axis = c["obs"][tm][:, sm_axis]
            want_code = c["obs"][tm][:, sm]
            if obs.shape != want_axis.shape or not np.array_equal(obs,
                                                                  want_axis):
                ctx.violation(
                    "Data.set_window", "exposed samples are not exactly "
                    "those inside the closed window (per axis)",
                    dict(wk, got_shape=list(obs.shape),
                         want_shape=list(want_axis.shape)),
                    {"lat_bounds_equal": bool(
                        w and w["lat_min"] == w["lat_max"]),
                     "lon_bounds_equal": bool(
                         w and w["lon_min"] == w["lon_max"]),
                     "matches_documented_rule": bool(
                         obs.shape == want_code.shape
                         and np.array_equal(obs, want_code))})
            if terms is not None and w is not None and \
                    obs.shape == want_code.shape:
                b = [w[k] for k in ("time_min", "time_max", "lat_min",
                                    "lat_max", "lon_min", "lon_max")]
                # the bounds are Python floats: numpy compares them with the
                # binary32 axes in binary32; the model compares exactly.  A
                # bound lying between a sample and its binary32 neighbour is
                # not modelled (the search below still covers it)
                exact_ok = True
                for ax, lo, hi in ((c["t"], b[0], b[1]),
                                   (c["lat"], b[2], b[3]),
                                   (c["lon"], b[4], b[5])):
                    a32 = ax.astype("float32")
                    a64 = a32.astype("float64")
                    if not (np.array_equal(a32 >= lo, a64 >= lo)
                            and np.array_equal(a32 <= hi, a64 <= hi)):
                        exact_ok = False
                if not exact_ok:
                    ctx.stat("window bound within binary32 rounding of a "
                             "sample (model skipped)")
                    b = None
            if terms is not None and w is not None and \
                    obs.shape == want_code.shape and b is not None:
                terms["win"].append(
                    f"({lq(c['t'].astype('float32'))}, "
                    f"{lq(c['lat'].astype('float32'))}, "
                    f"{lq(c['lon'].astype('float32'))}, "
                    f"({', '.join(ql(v) for v in b)}), {mq(c['obs'])}, "
                    f"{mq(obs)})")
                terms["win_meta"].append(wk)
            # shapes of everything derived
            T_, N_ = obs.shape
            if T_ == 0 or N_ == 0:
                continue
            gs = d.grid.grid_size()
            shapes = {"grid": (gs["time"], gs["space"]),
                      "lat": (T_, len(d.grid.lat_sequence())),
                      "lon": (T_, len(d.grid.lon_sequence()))}
            for nm, sh in shapes.items():
                if tuple(sh) != (T_, N_):
                    ctx.violation("Data.grid", f"{nm} does not match the "
                                  "observable's shape", dict(wk, got=list(sh)),
                                  {})
            if T_ < c["cycle"]:
                continue
            try:
                an = d.anomaly()
                pm = d.phase_mean()
            except Exception as e:
                ctx.violation("ClimateData.anomaly / phase_mean", "raises",
                              dict(wk, err=f"{type(e).__name__}: {e}"),
                              {"kind": "exception"})
                continue
            if an.shape != obs.shape or pm.shape != (c["cycle"], N_):
                ctx.violation("ClimateData.anomaly / phase_mean",
                              "shape differs from the windowed observable",
                              dict(wk, anomaly=list(an.shape),
                                   phase_mean=list(pm.shape),
                                   observable=list(obs.shape)),
                              {"anomalies_flag": c["anomalies"]})
                continue
            if not c["anomalies"]:
                cy = c["cycle"]
                for i in range(cy):
                    if abs(an[i::cy].mean(axis=0)).max() > 1e-9:
                        ctx.violation("ClimateData.anomaly",
                                      "phase mean of the anomalies is not 0",
                                      dict(wk, phase=i), {})
                        break
                rec = an + pm[np.arange(T_) % cy]
                if not np.allclose(rec, obs, atol=1e-9):
                    ctx.violation("ClimateData.anomaly + phase_mean",
                                  "does not add back to the observable", wk,
                                  {})
                if terms is not None:
                    col = ctx.rng.randrange(N_)
                    terms["anom"].append(
                        f"({lq(obs[:, col])}, {cy}%nat, {lq(an[:, col])}, "
                        f"{lq(pm[:, col])})")
                    terms["anom_meta"].append(dict(wk, column=col))
                    pi = d.phase_indices()
                    rows = listlit([listlit([f"{int(v)}%nat" for v in r])
                                    for r in pi])
                    # phase i of the window = samples i, i + cycle, ... over
                    # the complete cycles counted from the window start
                    ry = T_ // cy
                    wantpi = np.array([np.arange(i, ry * cy, cy)
                                       for i in range(cy)], dtype=int)
                    if np.asarray(pi).shape != wantpi.shape or \
                            not np.array_equal(np.asarray(pi), wantpi):
                        ctx.violation("ClimateData.phase_indices",
                                      "row i is not the samples of phase i "
                                      "counted from the window start",
                                      dict(wk, got=np.asarray(pi).tolist(),
                                           want=wantpi.tolist()), {})
                    terms["pidx"].append(f"({T_}%nat, {cy}%nat, {rows})")
                    terms["pidx_meta"].append(wk)
            else:
                if not np.array_equal(an, obs):
                    ctx.violation("ClimateData.anomaly (anomalies=True)",
                                  "is not the windowed observable", wk, {})
        if not np.array_equal(d.observable(), full):
            ctx.violation("Data.set_global_window",
                          "does not restore the original view", key, {})
    ctx.sample({k: key[k] for k in ("cycle", "anomalies")})


def correspondence(ctx):
    cases = gen(ctx)
    terms = {k: [] for k in ("win", "win_meta", "anom", "anom_meta", "pidx",
                             "pidx_meta")}
    for c in cases:
        run_case(ctx, c, terms)
    ctx._done = True
    for k, fn in (("win", "check_window"), ("anom", "check_anom"),
                  ("pidx", "check_pidx")):
        fails = ctx.coq_failing("c13_" + k, HEADER, terms[k], fn, chunk=100)
        for i in fails or []:
            ctx.corr(f"window model != implementation ({k})",
                     terms[k + "_meta"][i], None)
        ctx.traces += len(terms[k])
        ctx.stats["c_" + k] = len(terms[k])


def search(ctx):
    ctx.stats["rule"] = (
        "integer observables T=6..30, N=2..6 on irregular grids (coordinates "
        "exact in float32), irregular increasing times, cycle lengths "
        "2,3,4,5,7,12 (also not dividing T), sequences of 1-4 windows (boxes, "
        "bounds on samples, coincident time / lat / lon bounds, global) "
        "followed by set_global_window, both settings of `anomalies`; every "
        "case non-trivial; distinct by hash of the inputs")
    if not getattr(ctx, "_done", False) or ctx.scale > 1:
        for c in gen(ctx):
            run_case(ctx, c)


def replay(ctx, rep):
    k = rep["case"]
    c = {"obs": np.array(k["obs"]), "lat": np.array(k["lat"]),
         "lon": np.array(k["lon"]), "t": np.array(k["t"]),
         "cycle": k["cycle"], "anomalies": k["anomalies"],
         "wins": [dict(k["window"], kind="replay")] if k.get("window")
         else []}
    run_case(ctx, c)
