"""Reflection-based catalogue of public query methods of a class."""
import inspect

import numpy as np

MUTATORS_PREFIX = ("set_", "del_", "randomly_", "clear_", "save", "Load",
                   "cache_clear", "update_", "rewire", "shuffle", "plot")
SKIP = {"copy", "splitted_copy", "permuted_copy", "undirected_copy",
        "print_cache_helper", "cache_clear", "edge_list", "normalize_time_series",
        "GrowWeights"}


def public_queries(cls, extra_skip=()):
    """[(name, callable(obj))] for public instance methods without required
    arguments that are not mutators / constructors / IO."""
    out = []
    for name in sorted(dir(cls)):
        if name.startswith("_") or name in SKIP or name in extra_skip:
            continue
        if name.startswith(MUTATORS_PREFIX) or name[0].isupper():
            continue
        raw = inspect.getattr_static(cls, name)
        if isinstance(raw, (staticmethod, classmethod, property)):
            continue
        attr = getattr(cls, name)
        if not callable(attr):
            continue
        fn = getattr(attr, "__wrapped__", attr)
        try:
            sig = inspect.signature(fn)
        except (TypeError, ValueError):
            continue
        params = list(sig.parameters.values())[1:]
        req = [p for p in params if p.default is inspect._empty
               and p.kind in (p.POSITIONAL_ONLY, p.POSITIONAL_OR_KEYWORD)]
        if req:
            continue
        out.append((name, (lambda obj, name=name: getattr(obj, name)())))
    return out


def shape_kind(val, n):
    """global | node | pair | other"""
    if val is None:
        return "none"
    if hasattr(val, "toarray"):
        val = val.toarray()
    try:
        a = np.asarray(val, dtype=float)
    except (TypeError, ValueError):
        return "other"
    if a.ndim == 0:
        return "global"
    if a.shape == (n,):
        return "node"
    if a.shape == (n, n):
        return "pair"
    return "other"


def to_array(val):
    if hasattr(val, "toarray"):
        val = val.toarray()
    return np.asarray(val, dtype=float)
