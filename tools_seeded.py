#!/usr/bin/env python3
"""Seeded-defect corpus.
  tools_seeded.py add C08 A /tmp/mut/C08/out "needs..."   copy patch/demo/notes
  tools_seeded.py run [ID ...]      apply each patch to /repo, run ./check, undo
"""
import json, os, shutil, subprocess, sys, time
HERE = os.path.dirname(os.path.abspath(__file__))
SD = os.path.join(HERE, "seeded")

def add(prop, letter, src, needs):
    d = os.path.join(SD, f"{prop}-{letter}")
    os.makedirs(d, exist_ok=True)
    shutil.copy(os.path.join(src, f"patch{letter}.diff"), os.path.join(d, "patch.diff"))
    shutil.copy(os.path.join(src, f"demo{letter}.py"), os.path.join(d, "demo.py"))
    if os.path.exists(os.path.join(src, "notes.md")):
        shutil.copy(os.path.join(src, "notes.md"), os.path.join(d, "notes.md"))
    meta = {"id": f"{prop}-{letter}", "property": prop, "needs": needs,
            "origin": "written by an independent sub-agent given only the property text and a scratch worktree",
            "confirmed": "patch applies to the pinned commit; demo PASS on clean tree and FAIL with the patch; test suite passes with the patch (as reported in notes.md and re-run by tools_seeded.py)"}
    json.dump(meta, open(os.path.join(d, "meta.json"), "w"), indent=1)

def run(ids):
    out = {}
    for name in sorted(os.listdir(SD)):
        d = os.path.join(SD, name)
        if not os.path.isdir(d) or (ids and name not in ids):
            continue
        meta = json.load(open(os.path.join(d, "meta.json")))
        prop = meta["property"]
        st = subprocess.run(["git", "-C", "/repo", "status", "--porcelain"], capture_output=True, text=True).stdout
        assert not st.strip(), "/repo not clean"
        pf = os.path.join(d, "patch.diff")
        ok = False
        for extra in ([], ["-C1", "--recount"], ["-C0", "--recount", "--unidiff-zero"]):
            if subprocess.run(["git", "-C", "/repo", "apply"] + extra + [pf], capture_output=True).returncode == 0:
                ok = True
                break
        if not ok:
            meta["last_run"] = {"error": "patch no longer applies to the repaired tree"}
            meta["detected"] = None
            json.dump(meta, open(os.path.join(d, "meta.json"), "w"), indent=1)
            print(name, "PATCH-DOES-NOT-APPLY")
            continue
        t0 = time.time()
        try:
            r = subprocess.run(["./check", prop], cwd=HERE, capture_output=True, text=True, timeout=3600)
            lines = [l for l in r.stdout.splitlines() if l.startswith("VIOLATION") or l.startswith("[" + prop)]
            det = {"exit": r.returncode, "lines": [l[:300] for l in lines], "wall_s": round(time.time() - t0)}
        finally:
            subprocess.run(["git", "-C", "/repo", "checkout", "--", "."], check=True)
        meta["last_run"] = det
        meta["detected"] = det["exit"] == 1 and any(l.startswith("VIOLATION") for l in det["lines"])
        meta["with_failing_input"] = any(l.startswith("VIOLATION") and "no-failing-input-found" not in l for l in det["lines"])
        json.dump(meta, open(os.path.join(d, "meta.json"), "w"), indent=1)
        verdict = "DETECTED" if meta["detected"] else (
            "NEUTRALISED-BY-FIX" if meta.get("neutralised_by_fix") else "MISSED")
        print(name, verdict, "(failing input)" if meta["with_failing_input"] else "", det["lines"][-1:] )
        out[name] = meta["detected"]
    return out

def table():
    """markdown table of the last recorded runs (for DESIGN.md section 10.4)"""
    import re
    print("| change | needs | T | C | P | failing input |")
    print("|--------|-------|---|---|---|---------------|")
    for name in sorted(os.listdir(SD)):
        mp = os.path.join(SD, name, "meta.json")
        if not os.path.exists(mp):
            continue
        m = json.load(open(mp))
        lr = m.get("last_run", {})
        summ = [l for l in lr.get("lines", []) if l.startswith("[")]
        t = c = pv = "?"
        if summ:
            mm = re.search(r"T=(\S+) C=(\S+) P=(\d+) unlisted", summ[-1])
            if mm:
                t = "broke" if mm.group(1) != "ok" else "ok"
                c = "broke" if mm.group(2) != "ok" else "ok"
                pv = mm.group(3)
        last = 'yes' if m.get('with_failing_input') else (
            'no longer a defect (see meta)' if m.get('neutralised_by_fix')
            else 'no')
        print(f"| {name} | {m.get('needs', '')[:100]} | {t} | {c} | {pv} | "
              f"{last} |")


if __name__ == "__main__":
    if sys.argv[1] == "table":
        table()
    elif sys.argv[1] == "add":
        add(*sys.argv[2:6])
    else:
        run(sys.argv[2:])
